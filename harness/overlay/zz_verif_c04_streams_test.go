package quic

// C04 — flow control, layer (b) of DESIGN.md §C04: the real SendStream / ReceiveStream on top of real
// stream + connection flow controllers.
//
// TestVerifC04SendStream: Write (from goroutines, inside a synctest bubble so that "the writer is
// blocked again" is an observable, deterministic state), popStreamFrame with arbitrary size
// budgets, losses (OnLost), acknowledgements, retransmissions, MAX_STREAM_DATA / MAX_DATA updates
// (raised, duplicate, stale), Close, CancelWrite (with and without a reliable boundary),
// STOP_SENDING.  Oracle: for every popped STREAM frame offset+len <= largest MAX_STREAM_DATA given,
// and the sum over streams of the highest offset+len <= largest MAX_DATA given (retransmissions
// never raise the high-water mark, so this is exactly "new bytes within credit"); at most one
// STREAM_DATA_BLOCKED per stream limit and at most one DATA_BLOCKED per connection limit.
//
// TestVerifC04RecvStream: STREAM frames (reordered, duplicate, overlapping, FIN), RESET_STREAM(_AT),
// Read of arbitrary sizes, CancelRead, MAX_STREAM_DATA generation, closeForShutdown.  The
// connection flow controller is wrapped by a counting wrapper (it forwards everything unchanged).
// Oracle after every operation: connection read credit == sum over streams of
//   final size            if the final size is known and the application has abandoned the stream
//                         (CancelRead, or RESET_STREAM and everything up to the reliable size read)
//   bytes returned by Read otherwise;
// after closeForShutdown (the connection is gone, nothing has to be returned any more) only
// "never more than once": the credit never decreases and never exceeds what was received.
// Frames within the advertised limits must be accepted; the first byte beyond => FLOW_CONTROL_ERROR.

import (
	"context"
	"errors"
	"fmt"
	"math/rand/v2"
	"sync"
	"testing"
	"testing/synctest"
	"time"

	"github.com/refraction-networking/uquic/internal/ackhandler"
	"github.com/refraction-networking/uquic/internal/flowcontrol"
	"github.com/refraction-networking/uquic/internal/monotime"
	"github.com/refraction-networking/uquic/internal/protocol"
	"github.com/refraction-networking/uquic/internal/qerr"
	"github.com/refraction-networking/uquic/internal/utils"
	"github.com/refraction-networking/uquic/internal/verif/evlog"
	"github.com/refraction-networking/uquic/internal/wire"
)

type c04bc = protocol.ByteCount

// c04Sender is the streamSender the streams report to.
type c04Sender struct {
	mu        sync.Mutex
	completed map[protocol.StreamID]int
	hasCtrl   map[protocol.StreamID]bool
	hasData   int
}

func newC04Sender() *c04Sender {
	return &c04Sender{completed: map[protocol.StreamID]int{}, hasCtrl: map[protocol.StreamID]bool{}}
}

func (s *c04Sender) onHasConnectionData() {}
func (s *c04Sender) onHasStreamData(protocol.StreamID, *SendStream) {
	s.mu.Lock()
	s.hasData++
	s.mu.Unlock()
}

func (s *c04Sender) onHasStreamControlFrame(id protocol.StreamID, _ streamControlFrameGetter) {
	s.mu.Lock()
	s.hasCtrl[id] = true
	s.mu.Unlock()
}

func (s *c04Sender) onStreamCompleted(id protocol.StreamID) {
	s.mu.Lock()
	s.completed[id]++
	s.mu.Unlock()
}

func (s *c04Sender) isCompleted(id protocol.StreamID) bool {
	s.mu.Lock()
	defer s.mu.Unlock()
	return s.completed[id] > 0
}

func (s *c04Sender) takeCtrl(id protocol.StreamID) bool {
	s.mu.Lock()
	defer s.mu.Unlock()
	v := s.hasCtrl[id]
	delete(s.hasCtrl, id)
	return v
}

type c04SOp struct {
	K       string
	S       int
	A, B    int64
	R, Q, P int64
	E       string `json:",omitempty"`
}

func c04ErrClass(err error) string {
	if err == nil {
		return "ok"
	}
	var te *qerr.TransportError
	if errors.As(err, &te) && te.ErrorCode == qerr.FlowControlError {
		return "fce"
	}
	return "other"
}

func c04Scale(rng *rand.Rand, scale int) int64 {
	switch scale {
	case 0:
		return 1 + rng.Int64N(60)
	case 1:
		return 100 + rng.Int64N(3000)
	default:
		return 4000 + rng.Int64N(60000)
	}
}

func c04Bucket(n int) int {
	switch {
	case n == 0:
		return 0
	case n == 1:
		return 1
	default:
		return 2
	}
}

// ---------------------------------------------------------------------------------------
// send side

type c04Out struct {
	f   ackhandler.StreamFrame
	s   int
	off c04bc
	n   c04bc
}

type c04SendStr struct {
	str      *SendStream
	limit    c04bc
	maxEnd   c04bc
	reported map[c04bc]bool
	repVal   map[c04bc]bool
	inflight bool
	closed   bool
	offered  c04bc
}

type c04SendRun struct {
	rng       *rand.Rand
	scale     int
	conn      flowcontrol.ConnectionFlowController
	connLimit c04bc
	connUsed  c04bc
	connRep   map[c04bc]bool
	strs      []*c04SendStr
	out       []c04Out
	ops       []c04SOp
	sig, err  string
	n         map[string]int
	mu        sync.Mutex // guards inflight flags and write results
}

func (r *c04SendRun) fail(sig, f string, a ...any) {
	if r.err == "" {
		r.sig, r.err = sig, fmt.Sprintf(f, a...)
	}
}

func (r *c04SendRun) pickLimit(cur c04bc) c04bc {
	switch x := r.rng.IntN(10); {
	case x < 6:
		r.n["limit_raised"]++
		return cur + 1 + c04bc(r.rng.Int64N(c04Scale(r.rng, r.scale)))
	case x < 8:
		r.n["limit_duplicate"]++
		return cur
	default:
		r.n["limit_stale"]++
		return c04bc(r.rng.Int64N(int64(cur) + 1))
	}
}

func (r *c04SendRun) write(i int) {
	st := r.strs[i]
	r.mu.Lock()
	busy := st.inflight
	r.mu.Unlock()
	if busy || st.closed {
		return
	}
	var n int
	switch r.rng.IntN(4) {
	case 0:
		n = 1 + r.rng.IntN(50)
	case 1:
		n = 1 + r.rng.IntN(1452)
	case 2:
		n = 1400 + r.rng.IntN(120) // around the buffering threshold
	default:
		n = 1453 + r.rng.IntN(6000)
	}
	st.offered += c04bc(n)
	st.inflight = true
	data := make([]byte, n)
	r.n["write"]++
	r.ops = append(r.ops, c04SOp{K: "write", S: i, A: int64(n)})
	go func() {
		st.str.Write(data)
		r.mu.Lock()
		st.inflight = false
		r.mu.Unlock()
	}()
	synctest.Wait()
	r.mu.Lock()
	if st.inflight {
		r.n["write_blocked"]++
	}
	r.mu.Unlock()
}

func (r *c04SendRun) pop(i int) {
	st := r.strs[i]
	var budget c04bc
	switch r.rng.IntN(8) {
	case 0:
		budget = c04bc(1 + r.rng.IntN(30)) // smaller than what the framer would offer; the repository's own tests do this
	case 1:
		budget = protocol.MaxPacketBufferSize // the largest budget a packet can offer (frames come from a pool of packet-sized buffers)
	case 2:
		budget = protocol.MinStreamFrameSize + c04bc(r.rng.IntN(8))
	default:
		budget = protocol.MinStreamFrameSize + c04bc(r.rng.IntN(int(protocol.MaxPacketBufferSize-protocol.MinStreamFrameSize)+1))
	}
	limitBefore := st.limit
	f, blocked, hasMore := st.str.popStreamFrame(budget, protocol.Version1)
	synctest.Wait() // a blocked writer may have been woken up; let it run until it is blocked again or done
	op := c04SOp{K: "pop", S: i, A: int64(budget), R: -1}
	if hasMore {
		op.P = 1
	}
	if f.Frame != nil {
		off, n := f.Frame.Offset, f.Frame.DataLen()
		op.R, op.Q = int64(off), int64(n)
		end := off + n
		r.out = append(r.out, c04Out{f: f, s: i, off: off, n: n})
		if end > st.maxEnd {
			r.n["pop_new"]++
			if off < st.maxEnd {
				r.n["pop_new_overlapping_old"]++
			}
			if end > st.limit {
				r.fail("C04|sendstream|beyond-stream-limit", "stream %d: STREAM frame [%d,%d) beyond the largest MAX_STREAM_DATA %d", i, off, end, st.limit)
			}
			r.connUsed += end - st.maxEnd
			st.maxEnd = end
			if r.connUsed > r.connLimit {
				r.fail("C04|sendstream|beyond-conn-limit", "stream %d: STREAM frame [%d,%d) raises the connection total to %d beyond the largest MAX_DATA %d", i, off, end, r.connUsed, r.connLimit)
			}
			if end == st.limit {
				r.n["pop_exactly_at_stream_limit"]++
			}
			if r.connUsed == r.connLimit {
				r.n["pop_exactly_at_conn_limit"]++
			}
		} else {
			r.n["pop_retransmission"]++
		}
	} else {
		r.n["pop_nothing"]++
	}
	if blocked != nil {
		r.n["stream_data_blocked"]++
		op.E = fmt.Sprintf("blocked@%d", blocked.MaximumStreamData)
		if blocked.MaximumStreamData != limitBefore {
			r.n["stream_data_blocked_value_differs_from_limit"]++
		}
		if st.reported[limitBefore] || st.repVal[blocked.MaximumStreamData] {
			r.fail("C04|sendstream|stream-data-blocked-twice", "stream %d: second STREAM_DATA_BLOCKED (%d) for limit %d", i, blocked.MaximumStreamData, limitBefore)
		}
		st.reported[limitBefore] = true
		st.repVal[blocked.MaximumStreamData] = true
	}
	r.ops = append(r.ops, op)
	// the framer asks the connection controller after popping STREAM frames
	if b, off := r.conn.IsNewlyBlocked(); b {
		r.n["data_blocked"]++
		r.ops = append(r.ops, c04SOp{K: "connBlocked", S: -1, R: int64(off)})
		if r.connRep[r.connLimit] {
			r.fail("C04|sendstream|data-blocked-twice", "second DATA_BLOCKED (%d) for connection limit %d", off, r.connLimit)
		}
		r.connRep[r.connLimit] = true
	}
}

func (r *c04SendRun) ackOrLose() {
	if len(r.out) == 0 {
		return
	}
	j := r.rng.IntN(len(r.out))
	o := r.out[j]
	r.out[j] = r.out[len(r.out)-1]
	r.out = r.out[:len(r.out)-1]
	if r.rng.IntN(5) < 3 {
		r.n["lost"]++
		r.ops = append(r.ops, c04SOp{K: "lost", S: o.s, A: int64(o.off), B: int64(o.n)})
		o.f.Handler.OnLost(o.f.Frame)
	} else {
		r.n["acked"]++
		r.ops = append(r.ops, c04SOp{K: "acked", S: o.s, A: int64(o.off), B: int64(o.n)})
		o.f.Handler.OnAcked(o.f.Frame)
	}
	synctest.Wait()
}

func (r *c04SendRun) run(nOps int) {
	for k := 0; k < nOps && r.err == ""; k++ {
		i := r.rng.IntN(len(r.strs))
		st := r.strs[i]
		switch x := r.rng.IntN(1000); {
		case x < 220:
			r.write(i)
		case x < 620:
			r.pop(i)
		case x < 740:
			r.ackOrLose()
		case x < 850:
			v := r.pickLimit(st.limit)
			st.limit = max(st.limit, v)
			r.ops = append(r.ops, c04SOp{K: "maxStreamData", S: i, A: int64(v)})
			st.str.updateSendWindow(v)
			synctest.Wait()
		case x < 940:
			v := r.pickLimit(r.connLimit)
			r.connLimit = max(r.connLimit, v)
			r.ops = append(r.ops, c04SOp{K: "maxData", S: -1, A: int64(v)})
			r.conn.UpdateSendWindow(v)
		case x < 955:
			r.mu.Lock()
			busy := st.inflight
			r.mu.Unlock()
			if !busy && !st.closed {
				st.closed = true
				r.n["close"]++
				r.ops = append(r.ops, c04SOp{K: "close", S: i})
				st.str.Close()
			}
		case x < 963:
			// (SetReliableBoundary after a cancellation or a STOP_SENDING corrupts the stream's frame accounting and
			// panics on the next ACK; that is not a flow-control question and is kept out of these histories)
			if r.rng.IntN(2) == 0 && !st.closed {
				st.str.SetReliableBoundary()
				r.ops = append(r.ops, c04SOp{K: "reliableBoundary", S: i})
			}
			r.n["cancel_write"]++
			r.ops = append(r.ops, c04SOp{K: "cancelWrite", S: i})
			st.str.CancelWrite(7)
			st.closed = true
			synctest.Wait()
			r.drainCtrl(i)
		case x < 967:
			r.n["stop_sending"]++
			r.ops = append(r.ops, c04SOp{K: "stopSending", S: i})
			st.str.handleStopSendingFrame(&wire.StopSendingFrame{StreamID: st.str.StreamID(), ErrorCode: 9})
			st.closed = true
			synctest.Wait()
			r.drainCtrl(i)
		case x < 975:
			st.str.SetWriteDeadline(time.Now().Add(time.Millisecond))
			time.Sleep(2 * time.Millisecond)
			synctest.Wait()
			st.str.SetWriteDeadline(time.Time{})
			r.n["write_deadline"]++
			r.ops = append(r.ops, c04SOp{K: "deadline", S: i})
		default:
			r.pop(i)
			r.pop(i)
		}
	}
	for _, st := range r.strs {
		st.str.closeForShutdown(errors.New("verif: end of history"))
	}
	synctest.Wait()
	for i, st := range r.strs {
		r.mu.Lock()
		if st.inflight {
			r.fail("C04|sendstream|write-stuck", "stream %d: Write still blocked after closeForShutdown", i)
		}
		r.mu.Unlock()
	}
}

// drainCtrl fetches the RESET_STREAM frame and looks at the final size it claims.
func (r *c04SendRun) drainCtrl(i int) {
	st := r.strs[i]
	for k := 0; k < 3; k++ {
		fr, ok, _ := st.str.getControlFrame(monotime.Now())
		if !ok {
			return
		}
		if rs, isReset := fr.Frame.(*wire.ResetStreamFrame); isReset {
			r.n["reset_stream_frames"]++
			r.ops = append(r.ops, c04SOp{K: "resetFrame", S: i, A: int64(rs.FinalSize), B: int64(rs.ReliableSize)})
			if rs.FinalSize > st.limit {
				// Not "stream bytes transmitted", so not a refutation of the property as stated; counted because a
				// final size counts against the peer's flow-control limit.
				r.n["reset_final_size_beyond_stream_limit"]++
			}
		}
	}
}

func TestVerifC04SendStream(t *testing.T) {
	l := evlog.Open("C04")
	defer l.Close()

	nHist := l.Pick(20000, 1000000)
	const batch = 250
	for bi := 0; bi*batch < nHist; bi++ {
		if !l.Mine(bi) {
			continue
		}
		id := fmt.Sprintf("C04/send/%06d", bi)
		c := l.Begin(id, map[string]any{"batch": bi, "n": batch})
		if c == nil {
			continue
		}
		rng := l.Rand(id)
		tot := map[string]int{}
		synctest.Test(t, func(t *testing.T) {
			for k := 0; k < batch; k++ {
				r := &c04SendRun{rng: rng, scale: rng.IntN(3), n: map[string]int{}, connRep: map[c04bc]bool{}}
				rtt := utils.NewRTTStats()
				r.conn = flowcontrol.NewConnectionFlowController(1<<20, 1<<20, func(c04bc) bool { return true }, rtt, utils.DefaultLogger)
				nStr := 1 + rng.IntN(4)
				r.connLimit = c04bc(c04Scale(rng, r.scale) * int64(1+rng.IntN(nStr)))
				if rng.IntN(8) == 0 {
					r.connLimit = 0
				}
				r.conn.UpdateSendWindow(r.connLimit)
				sender := newC04Sender()
				cfg := map[string]any{"scale": r.scale, "connLimit": r.connLimit}
				var lims []c04bc
				for i := 0; i < nStr; i++ {
					lim := c04bc(c04Scale(rng, r.scale))
					if rng.IntN(8) == 0 {
						lim = 0
					}
					lims = append(lims, lim)
					fc := flowcontrol.NewStreamFlowController(protocol.StreamID(4*i), r.conn, 1<<20, 1<<20, lim, rtt, utils.DefaultLogger)
					str := newSendStream(context.Background(), protocol.StreamID(4*i), sender, fc, rng.IntN(3) == 0)
					r.strs = append(r.strs, &c04SendStr{str: str, limit: lim, reported: map[c04bc]bool{}, repVal: map[c04bc]bool{}})
				}
				cfg["streamLimits"] = lims
				r.run(30 + rng.IntN(120))
				fp := ""
				if r.n["pop_new"] > 0 {
					b := func(k string) int { return c04Bucket(r.n[k]) }
					fp = fmt.Sprintf("n%d/sc%d/w%d.%d/new%d/rtx%d/lim%d.%d.%d/sdb%d/db%d/at%d.%d/cl%d/cw%d/ss%d", nStr, r.scale, b("write"), b("write_blocked"), b("pop_new"), b("pop_retransmission"),
						b("limit_raised"), b("limit_duplicate"), b("limit_stale"), b("stream_data_blocked"), b("data_blocked"),
						b("pop_exactly_at_stream_limit"), b("pop_exactly_at_conn_limit"), b("close"), b("cancel_write"), b("stop_sending"))
				}
				c.Eval(fp)
				for key, v := range r.n {
					tot[key] += v
				}
				tot["ops"] += len(r.ops)
				if r.err != "" {
					c.Violation(r.sig, r.err, map[string]any{"batch": bi, "index": k, "cfg": cfg, "ops": r.ops})
				} else if r.n["reset_final_size_beyond_stream_limit"] > 0 {
					c.Sample("send-reset-final-size-beyond-limit", map[string]any{"cfg": cfg, "ops": r.ops})
				}
			}
		})
		for key, v := range tot {
			l.Count("send_"+key, int64(v))
		}
		c.End()
	}
}

// ---------------------------------------------------------------------------------------
// receive side

type c04CountingConnFC struct {
	flowcontrol.ConnectionFlowController
	ext interface {
		EnsureMinimumWindowSize(protocol.ByteCount, monotime.Time)
		IncrementHighestReceived(protocol.ByteCount, monotime.Time) error
	}
	credit c04bc
	calls  int
}

func (w *c04CountingConnFC) AddBytesRead(n protocol.ByteCount) bool {
	w.credit += n
	w.calls++
	return w.ConnectionFlowController.AddBytesRead(n)
}

func (w *c04CountingConnFC) EnsureMinimumWindowSize(n protocol.ByteCount, now monotime.Time) {
	w.ext.EnsureMinimumWindowSize(n, now)
}

func (w *c04CountingConnFC) IncrementHighestReceived(n protocol.ByteCount, now monotime.Time) error {
	return w.ext.IncrementHighestReceived(n, now)
}

type c04RecvStr struct {
	str  *ReceiveStream
	id   protocol.StreamID
	adv  c04bc
	maxW c04bc
	have []bool

	highest    c04bc
	read       c04bc
	finalKnown bool
	final      c04bc
	finViaFIN  bool
	cancelled  bool // CancelRead took effect
	resetSeen  bool // RESET_STREAM processed while not cancelled locally
	anyReset   bool
	reliable   c04bc
	// how the final size became known (input class of the known leak)
	cancelBeforeFinal bool
	finalByResetAt    bool
	reliableAtFinal   c04bc
	eofSeen           bool
	errSeen           bool
	shutdown          bool
	creditAtSD        c04bc
	// leak: the stream is in the one state in which the unchanged tree is known not to return the
	// abandoned bytes (reported once per history under its own signature); the model then follows the
	// code so that the rest of the history is still checked
	leak bool
}

func (s *c04RecvStr) contiguous() c04bc {
	n := c04bc(0)
	for i := int(s.read); i < len(s.have) && s.have[i]; i++ {
		n++
	}
	return n
}

func (s *c04RecvStr) mark(off, n c04bc) {
	for int(off+n) > len(s.have) {
		s.have = append(s.have, false)
	}
	for i := off; i < off+n; i++ {
		s.have[i] = true
	}
}

func (s *c04RecvStr) abandoned() bool {
	return s.finalKnown && (s.cancelled || (s.resetSeen && s.read >= s.reliable))
}

func (s *c04RecvStr) expected() c04bc {
	if s.abandoned() && !s.leak {
		return s.final
	}
	return s.read
}

type c04RecvRun struct {
	rng      *rand.Rand
	scale    int
	conn     *c04CountingConnFC
	sender   *c04Sender
	connAdv  c04bc
	connMaxW c04bc
	connHigh c04bc
	strs     []*c04RecvStr
	now      monotime.Time
	ops      []c04SOp
	sig, err string
	ended    bool
	n        map[string]int
	sdCredit c04bc
	inSD     bool
	extra    [][2]string // non-fatal violations (sig, detail); the history goes on
}

func (r *c04RecvRun) fail(sig, f string, a ...any) {
	if r.err == "" {
		r.sig, r.err = sig, fmt.Sprintf(f, a...)
	}
}

func (r *c04RecvRun) checkCredit(after string) {
	if r.inSD {
		var recvd c04bc
		for _, s := range r.strs {
			recvd += s.highest
		}
		if r.conn.credit < r.sdCredit || r.conn.credit > recvd {
			r.fail("C04|recvstream|credit-twice", "after %s (connection shut down): credit %d, was %d at shutdown, received in total %d", after, r.conn.credit, r.sdCredit, recvd)
		}
		return
	}
	var want c04bc
	for _, s := range r.strs {
		want += s.expected()
	}
	if got := r.conn.credit; got < want {
		// Is the whole deficit explained by streams on which CancelRead was followed by a RESET_STREAM_AT whose
		// reliable size lies beyond the read position?  Then this is the specific input class below.
		var alt c04bc
		var leaky []*c04RecvStr
		for _, s := range r.strs {
			if s.abandoned() && !s.leak && s.cancelled && s.cancelBeforeFinal && s.finalByResetAt && s.read < s.reliableAtFinal {
				alt += s.read
				leaky = append(leaky, s)
			} else {
				alt += s.expected()
			}
		}
		if len(leaky) > 0 && got == alt {
			for _, s := range leaky {
				s.leak = true
			}
			r.n["known_leak_cancelread_then_reset_at"]++
			r.extra = append(r.extra, [2]string{"C04|recvstream|credit-missing|cancelread-then-reset-at-with-reliable-size-beyond-read",
				fmt.Sprintf("after %s: connection credited %d, consumed+abandoned %d: stream %d was cancelled locally (CancelRead) before its final size was known, then a RESET_STREAM_AT (final size %d, reliable size %d > read position %d) completed it; the %d received-but-unread bytes were never returned to the connection window",
					after, got, want, leaky[0].id, leaky[0].final, leaky[0].reliableAtFinal, leaky[0].read, leaky[0].final-leaky[0].read)})
			return
		}
	}
	if got := r.conn.credit; got != want {
		what := "credit-missing"
		if got > want {
			what = "credit-twice"
		}
		detail := ""
		for i, s := range r.strs {
			detail += fmt.Sprintf(" [%d: read %d highest %d finalKnown %v final %d cancelled %v reset %v reliable %d]", i, s.read, s.highest, s.finalKnown, s.final, s.cancelled, s.resetSeen, s.reliable)
		}
		r.fail("C04|recvstream|"+what, "after %s: connection credited %d, consumed+abandoned %d;%s", after, got, want, detail)
	}
}

// room returns how far stream i may still grow within both advertised limits.
func (r *c04RecvRun) room(s *c04RecvStr) c04bc {
	return min(s.adv-s.highest, r.connAdv-r.connHigh)
}

func (r *c04RecvRun) accept(s *c04RecvStr, end c04bc) {
	if end > s.highest {
		r.connHigh += end - s.highest
		s.highest = end
	}
}

func (r *c04RecvRun) opFrame(i int) {
	s := r.strs[i]
	if r.sender.isCompleted(s.id) {
		return // the streams map has deleted the stream; frames for it are dropped before they reach it
	}
	maxEnd := s.highest + r.room(s)
	if s.finalKnown {
		maxEnd = s.final
	}
	var off, n c04bc
	if maxEnd > 0 {
		switch r.rng.IntN(10) {
		case 0, 1: // anywhere (reordering, duplicates, overlaps)
			off = c04bc(r.rng.Int64N(int64(maxEnd)))
		case 2, 3: // near the read position
			off = min(s.read+c04bc(r.rng.IntN(40)), maxEnd-1)
		default: // in order
			off = min(s.highest, maxEnd-1)
			if off > 0 && r.rng.IntN(4) == 0 {
				off -= c04bc(r.rng.Int64N(int64(min(off, 20)) + 1))
			}
		}
		n = 1 + c04bc(r.rng.Int64N(int64(min(maxEnd-off, 1400))))
		if r.rng.IntN(3) == 0 {
			n = min(maxEnd-off, 1400)
		}
	}
	fin := false
	if s.finalKnown {
		fin = off+n == s.final && r.rng.IntN(2) == 0
	} else if off+n >= s.highest && r.rng.IntN(12) == 0 {
		fin = true
	}
	if n == 0 && !fin {
		return
	}
	frame := &wire.StreamFrame{StreamID: s.id, Offset: off, Data: make([]byte, n), Fin: fin, DataLenPresent: true}
	err := s.str.handleStreamFrame(frame, r.now)
	cls := c04ErrClass(err)
	r.ops = append(r.ops, c04SOp{K: "frame", S: i, A: int64(off), B: int64(n), R: evb(fin), E: cls})
	r.n["frame"]++
	if off+n == s.adv || r.connHigh+max(0, off+n-s.highest) == r.connAdv {
		r.n["frame_exactly_at_limit"]++
	}
	if err != nil {
		if cls == "fce" {
			r.fail("C04|recvstream|within-limit-rejected", "stream %d: STREAM frame [%d,%d) fin=%v within stream limit %d and connection limit (%d of %d) answered with %v", i, off, off+n, fin, s.adv, r.connHigh, r.connAdv, err)
		} else {
			r.n["frame_other_error"]++
		}
		r.ended = true
		return
	}
	r.accept(s, off+n)
	if !s.cancelled {
		s.mark(off, n)
	}
	if fin {
		s.finalKnown, s.final, s.finViaFIN = true, off+n, true
	}
	r.checkCredit("handleStreamFrame")
}

func evb(b bool) int64 {
	if b {
		return 1
	}
	return 0
}

func (r *c04RecvRun) opReset(i int) {
	s := r.strs[i]
	if r.sender.isCompleted(s.id) {
		return
	}
	final := s.final
	if !s.finalKnown {
		final = s.highest + c04bc(r.rng.Int64N(int64(r.room(s))+1))
		if r.rng.IntN(3) == 0 {
			final = s.highest
		}
	}
	var reliable c04bc
	if r.rng.IntN(3) == 0 {
		reliable = c04bc(r.rng.Int64N(int64(final) + 1))
	}
	err := s.str.handleResetStreamFrame(&wire.ResetStreamFrame{StreamID: s.id, ErrorCode: 5, FinalSize: final, ReliableSize: reliable}, r.now)
	cls := c04ErrClass(err)
	r.ops = append(r.ops, c04SOp{K: "reset", S: i, A: int64(final), B: int64(reliable), E: cls})
	r.n["reset"]++
	if reliable > 0 {
		r.n["reset_at"]++
	}
	if err != nil {
		if cls == "fce" {
			r.fail("C04|recvstream|within-limit-rejected", "stream %d: RESET_STREAM final size %d within stream limit %d and connection limit (%d of %d) answered with %v", i, final, s.adv, r.connHigh, r.connAdv, err)
		} else {
			r.n["reset_other_error"]++
		}
		r.ended = true
		return
	}
	r.accept(s, final)
	if !s.finalKnown {
		s.cancelBeforeFinal = s.cancelled
		s.finalByResetAt = reliable > 0
		s.reliableAtFinal = reliable
	}
	s.finalKnown, s.final = true, final
	if !s.anyReset || reliable < s.reliable {
		s.reliable = reliable
	}
	s.anyReset = true
	if !s.cancelled {
		s.resetSeen = true
	}
	r.checkCredit("handleResetStreamFrame")
}

func (r *c04RecvRun) opRead(i int) {
	if r.rng.IntN(8) > 0 && !r.inSD {
		// prefer a stream that has data
		var cand []int
		for j, s := range r.strs {
			if s.contiguous() > 0 && !s.cancelled && !s.errSeen {
				cand = append(cand, j)
			}
		}
		if len(cand) > 0 {
			i = cand[r.rng.IntN(len(cand))]
		}
	}
	s := r.strs[i]
	if (s.errSeen || s.eofSeen) && !r.inSD && r.rng.IntN(4) > 0 {
		return // the application has already seen the end of this stream
	}
	// never call Read when it would block: data must be available, or the stream must be in a state in
	// which Read returns at once
	avail := s.contiguous()
	terminal := s.cancelled || s.shutdown || s.eofSeen || s.errSeen ||
		(s.resetSeen && s.read >= s.reliable) ||
		(s.finViaFIN && !s.anyReset && s.read == s.final)
	if avail == 0 && !terminal {
		r.n["read_skipped_would_block"]++
		return
	}
	n := 1 + r.rng.IntN(int(min(avail, 3000))+8)
	if r.rng.IntN(4) == 0 {
		n = 1 + r.rng.IntN(8)
	}
	s.str.SetReadDeadline(time.Now().Add(time.Millisecond)) // safety net: a blocked Read returns instead of deadlocking the bubble
	got, err := s.str.Read(make([]byte, n))
	r.ops = append(r.ops, c04SOp{K: "read", S: i, A: int64(n), R: int64(got), E: fmt.Sprint(err)})
	r.n["read"]++
	s.read += c04bc(got)
	if got > 0 {
		r.n["read_bytes"] += got
	}
	if err != nil {
		if errors.Is(err, errDeadline) {
			r.n["read_deadline"]++
		} else if err.Error() == "EOF" {
			s.eofSeen = true
			r.n["read_eof"]++
		} else {
			s.errSeen = true
			r.n["read_error"]++
		}
	}
	r.checkCredit("Read")
}

func (r *c04RecvRun) opCancel(i int) {
	s := r.strs[i]
	s.str.CancelRead(3)
	r.ops = append(r.ops, c04SOp{K: "cancelRead", S: i})
	r.n["cancel_read"]++
	if !s.shutdown {
		if !s.cancelled && s.highest > s.read {
			r.n["cancel_read_with_unread"]++
		}
		s.cancelled = true
	}
	r.checkCredit("CancelRead")
}

func (r *c04RecvRun) opCtrl(i int) {
	s := r.strs[i]
	for k := 0; k < 3; k++ {
		fr, ok, _ := s.str.getControlFrame(r.now)
		if !ok {
			return
		}
		if m, isMax := fr.Frame.(*wire.MaxStreamDataFrame); isMax {
			v := m.MaximumStreamData
			r.ops = append(r.ops, c04SOp{K: "maxStreamDataOut", S: i, R: int64(v)})
			r.n["max_stream_data_frames"]++
			switch {
			case v == 0:
				// The flow controller's "no update" value, put into a frame because the final size became known
				// between queueing and packing.  Not counted as an advertisement (the peer ignores it), but shown in
				// the evidence.
				r.n["max_stream_data_frames_zero"]++
			case v < s.adv:
				r.fail("C04|recvstream|max-stream-data-decreased", "stream %d: MAX_STREAM_DATA %d after %d had been advertised", i, v, s.adv)
			case v > s.read+s.maxW:
				r.fail("C04|recvstream|max-stream-data-above-consumed-plus-window", "stream %d: MAX_STREAM_DATA %d with %d bytes consumed and a maximum window of %d", i, v, s.read, s.maxW)
			}
			s.adv = max(s.adv, v)
		} else {
			r.n["stop_sending_frames"]++
		}
	}
}

func (r *c04RecvRun) run(nOps int, shutdownPhase bool) {
	for k := 0; k < nOps && r.err == "" && !r.ended; k++ {
		i := r.rng.IntN(len(r.strs))
		switch x := r.rng.IntN(1000); {
		case x < 400:
			r.opFrame(i)
		case x < 720:
			r.opRead(i)
		case x < 732:
			r.opCancel(i)
		case x < 750:
			r.opReset(i)
		case x < 890:
			r.sender.takeCtrl(r.strs[i].id)
			r.opCtrl(i)
		case x < 960:
			if o := r.conn.GetWindowUpdate(r.now); o != 0 {
				r.n["max_data"]++
				if o < r.connAdv {
					r.fail("C04|recvstream|max-data-decreased", "MAX_DATA %d after %d had been advertised", o, r.connAdv)
				}
				if o > r.conn.credit+r.connMaxW {
					r.fail("C04|recvstream|max-data-above-consumed-plus-window", "MAX_DATA %d with %d bytes credited and a maximum window of %d", o, r.conn.credit, r.connMaxW)
				}
				r.connAdv = max(r.connAdv, o)
				r.ops = append(r.ops, c04SOp{K: "maxDataOut", S: -1, R: int64(o)})
			}
		default:
			r.now = r.now.Add(time.Duration(r.rng.Int64N(int64(50 * time.Millisecond))))
		}
	}
	if r.err != "" || r.ended {
		return
	}
	if !shutdownPhase {
		// the first byte beyond a limit
		var cand []int
		for i, s := range r.strs {
			if !s.finalKnown && !r.sender.isCompleted(s.id) {
				cand = append(cand, i)
			}
		}
		if len(cand) == 0 {
			return
		}
		i := cand[r.rng.IntN(len(cand))]
		s := r.strs[i]
		end := s.adv + 1
		what := "stream"
		if roomC := r.connAdv - r.connHigh; r.rng.IntN(2) == 0 && s.highest+roomC+1 <= s.adv {
			end, what = s.highest+roomC+1, "conn"
		}
		var err error
		if r.rng.IntN(4) == 0 {
			err = s.str.handleResetStreamFrame(&wire.ResetStreamFrame{StreamID: s.id, ErrorCode: 5, FinalSize: end}, r.now)
			r.ops = append(r.ops, c04SOp{K: "reset", S: i, A: int64(end), E: c04ErrClass(err)})
		} else {
			err = s.str.handleStreamFrame(&wire.StreamFrame{StreamID: s.id, Offset: end - 1, Data: make([]byte, 1), DataLenPresent: true}, r.now)
			r.ops = append(r.ops, c04SOp{K: "frame", S: i, A: int64(end - 1), B: 1, E: c04ErrClass(err)})
		}
		r.n["probe_beyond_"+what]++
		if c04ErrClass(err) != "fce" {
			r.fail("C04|recvstream|beyond-"+what+"-limit-accepted", "stream %d: first byte beyond the advertised %s limit (end offset %d, stream limit %d, connection %d of %d) answered with %v", i, what, end, s.adv, r.connHigh, r.connAdv, err)
		}
		return
	}
	// the connection goes away
	r.inSD, r.sdCredit = true, r.conn.credit
	for _, s := range r.strs {
		s.str.closeForShutdown(errors.New("verif: shutdown"))
		s.shutdown = true
	}
	r.ops = append(r.ops, c04SOp{K: "closeForShutdown", S: -1})
	r.n["shutdown"]++
	for k := 0; k < 6 && r.err == ""; k++ {
		i := r.rng.IntN(len(r.strs))
		if r.rng.IntN(3) == 0 {
			r.opCancel(i)
		} else {
			r.opRead(i)
		}
	}
}

var c04ExtraReported int

func TestVerifC04RecvStream(t *testing.T) {
	l := evlog.Open("C04")
	defer l.Close()

	nHist := l.Pick(20000, 1000000)
	const batch = 250
	for bi := 0; bi*batch < nHist; bi++ {
		if !l.Mine(bi) {
			continue
		}
		id := fmt.Sprintf("C04/recv/%06d", bi)
		c := l.Begin(id, map[string]any{"batch": bi, "n": batch})
		if c == nil {
			continue
		}
		rng := l.Rand(id)
		tot := map[string]int{}
		synctest.Test(t, func(t *testing.T) {
			for k := 0; k < batch; k++ {
				r := &c04RecvRun{rng: rng, scale: rng.IntN(2), n: map[string]int{}, sender: newC04Sender(), now: monotime.Time(1_000_000_000)}
				rtt := utils.NewRTTStats()
				if rng.IntN(4) > 0 {
					rtt.UpdateRTT(time.Duration(1+rng.Int64N(int64(200*time.Millisecond))), 0)
				}
				nStr := 1 + rng.IntN(4)
				connW := c04bc(c04Scale(rng, r.scale) * int64(1+rng.IntN(nStr)))
				connMax := connW * c04bc(1+rng.IntN(4))
				real := flowcontrol.NewConnectionFlowController(connW, connMax, func(c04bc) bool { return true }, rtt, utils.DefaultLogger)
				r.conn = &c04CountingConnFC{ConnectionFlowController: real, ext: real}
				r.connAdv, r.connMaxW = connW, connMax
				cfg := map[string]any{"scale": r.scale, "connWindow": connW, "connMaxWindow": connMax}
				var ws [][2]c04bc
				for i := 0; i < nStr; i++ {
					w := c04bc(c04Scale(rng, r.scale))
					mw := w * c04bc(1+rng.IntN(4))
					ws = append(ws, [2]c04bc{w, mw})
					sid := protocol.StreamID(4 * i)
					fc := flowcontrol.NewStreamFlowController(sid, r.conn, w, mw, 1<<20, rtt, utils.DefaultLogger)
					r.strs = append(r.strs, &c04RecvStr{str: newReceiveStream(sid, r.sender, fc), id: sid, adv: w, maxW: mw})
				}
				cfg["streamWindows"] = ws
				shutdown := rng.IntN(2) == 0
				r.run(30+rng.IntN(150), shutdown)
				fp := ""
				if r.n["frame"] > 1 && r.n["read_bytes"] > 0 {
					b := func(k string) int { return c04Bucket(r.n[k]) }
					fp = fmt.Sprintf("n%d/sc%d/sd%v/cr%d.%d/rs%d.%d/eof%d/msd%d/md%d/lim%d/pb%d.%d/e%v", nStr, r.scale, shutdown, b("cancel_read"), b("cancel_read_with_unread"),
						b("reset"), b("reset_at"), b("read_eof"), b("max_stream_data_frames"), b("max_data"), b("frame_exactly_at_limit"),
						b("probe_beyond_stream"), b("probe_beyond_conn"), r.ended)
				}
				c.Eval(fp)
				for key, v := range r.n {
					tot[key] += v
				}
				tot["ops"] += len(r.ops)
				tot["conn_credit_calls"] += r.conn.calls
				if r.err != "" {
					c.Violation(r.sig, r.err, map[string]any{"batch": bi, "index": k, "cfg": cfg, "ops": r.ops})
				}
				for _, e := range r.extra {
					// a handful per process is enough (the log keeps at most 200 violation records per shard, and this
					// one occurs in about 3 % of the histories)
					if c04ExtraReported < 5 {
						c04ExtraReported++
						c.Violation(e[0], e[1], map[string]any{"batch": bi, "index": k, "cfg": cfg, "ops": r.ops})
					}
				}
				if r.err == "" && r.n["max_stream_data_frames_zero"] > 0 && len(r.ops) < 60 {
					c.Sample("recv-max-stream-data-frame-carrying-zero", map[string]any{"cfg": cfg, "ops": r.ops})
				}
			}
		})
		for key, v := range tot {
			l.Count("recv_"+key, int64(v))
		}
		c.End()
	}
}
