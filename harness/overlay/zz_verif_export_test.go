package quic

// Bridge for the C16 and C17 end-to-end monitors (package quic_test): a snapshot of a Transport's routing state.

// VerifRouting returns the connection IDs currently routed by t (hex), how many of them are
// routed to a closed-connection placeholder, and the number of registered stateless reset tokens.
func VerifRouting(t *Transport) (cids map[string]bool, closed int, resetTokens int) {
	t.mutex.Lock()
	defer t.mutex.Unlock()
	cids = map[string]bool{}
	for id, h := range t.handlers {
		cids[string(id.Bytes())] = true
		switch h.(type) {
		case *closedLocalConn, *closedRemoteConn:
			closed++
		}
	}
	return cids, closed, len(t.resetTokens)
}
