package quic_test

// C10 — the Initial flight's headers, numbering, token and sizes are as the InitialPacketSpec says.
//
// The client's first flight (and its PTO retransmissions) is captured on the simulated wire,
// Initial protection is removed with keys derived from the DCID alone, and every field is compared
// with an interpreter of the documentation comments of InitialPacketSpec / QUICSpec / the frame
// builders (c10Check below).  The interpreter never looks at how the packer computes anything.

import (
	"bytes"
	"fmt"
	"strings"
	"testing"
	"testing/synctest"
	"time"

	"github.com/refraction-networking/clienthellod"
	quic "github.com/refraction-networking/uquic"
	"github.com/refraction-networking/uquic/internal/verif/evlog"
	"github.com/refraction-networking/uquic/internal/verif/quicworld"
	"github.com/refraction-networking/uquic/internal/verif/specgen"
	"github.com/refraction-networking/uquic/internal/verif/wiretap"
)

const c10MaxPN = uint64(1)<<62 - 1

type c10Plan struct {
	CL int `json:"cl"`
	PS int `json:"ps"`
}

// c10Rand mirrors QUICRandomFrames: [Min, Max) counts of PING, CRYPTO, PADDING frames and the total length.
type c10Rand struct {
	PI, PA, CI, CA, DI, DA int
	Len                    int
}

// c10Frame is one entry of a declarative layout: K = "c" CRYPTO (A offset, B length), "p" PING, "n" PADDING (A bytes).
type c10Frame struct {
	K string `json:"k"`
	A int    `json:"a,omitempty"`
	B int    `json:"b,omitempty"`
}

type c10Conf struct {
	Name    string       `json:"name"`
	QUICID  string       `json:"quicid,omitempty"`
	DCID    int          `json:"dcid"`
	SCID    int          `json:"scid"`
	InitPN  uint64       `json:"init_pn"`
	PNLens  []int        `json:"pn_lens,omitempty"`
	PNLen   int          `json:"pn_len,omitempty"`
	Token   string       `json:"token"` // none | store | storenil | len | prefix | userconf
	TokLen  int          `json:"tok_len,omitempty"`
	PrefLen int          `json:"pref_len,omitempty"`
	Both    bool         `json:"both,omitempty"` // explicit store and ClientTokenLength together
	Builder string       `json:"builder"`        // nil | empty | frames | custom | random | multi | flight | randflight
	Frames  [][]c10Frame `json:"frames,omitempty"`
	Rand    []c10Rand    `json:"rand,omitempty"`
	Ranges  [][][2]int   `json:"ranges,omitempty"`
	Plans   []c10Plan    `json:"plans,omitempty"`
	UDPMin  int          `json:"udp_min"`
	Hello   string       `json:"hello"`
	IPS     int          `json:"initial_packet_size,omitempty"`
	Live    bool         `json:"live,omitempty"`
	Dials   int          `json:"dials"`
	WaitMs  int          `json:"wait_ms"`
}

// c10BuildOnly is a QUICFrameBuilder that does not implement QUICFrameBuilderEx.
type c10BuildOnly struct{ fs quic.QUICFrames }

func (b c10BuildOnly) Build(cryptoData []byte) ([]byte, error) { return b.fs.Build(cryptoData) }

func c10QUICFrames(l []c10Frame) quic.QUICFrames {
	out := quic.QUICFrames{}
	for _, f := range l {
		switch f.K {
		case "c":
			out = append(out, quic.QUICFrameCrypto{Offset: f.A, Length: f.B})
		case "p":
			out = append(out, quic.QUICFramePing{})
		case "n":
			out = append(out, quic.QUICFramePadding{Length: f.A})
		}
	}
	return out
}

func c10RandFrames(r c10Rand) quic.QUICRandomFrames {
	return quic.QUICRandomFrames{MinPING: uint8(r.PI), MaxPING: uint8(r.PA), MinCRYPTO: uint8(r.CI), MaxCRYPTO: uint8(r.CA), MinPADDING: uint8(r.DI), MaxPADDING: uint8(r.DA), Length: uint16(r.Len)}
}

func c10TokenBytes(n int, salt byte) []byte {
	b := make([]byte, n)
	for i := range b {
		b[i] = byte(i*13) + salt
	}
	return b
}

// c10Spec builds the QUICSpec, the Config and the explicit token store (if any) of a configuration.
func c10Spec(cf *c10Conf) (*quic.QUICSpec, *quic.Config, *specgen.TokenStore, error) {
	conf := &quic.Config{InitialPacketSize: uint16(cf.IPS)}
	if cf.QUICID != "" {
		spec, err := quic.QUICID2Spec(quicworld.QUICIDs[cf.QUICID])
		return &spec, conf, nil, err
	}
	ps := quic.InitialPacketSpec{SrcConnIDLength: cf.SCID, DestConnIDLength: cf.DCID, InitPacketNumber: cf.InitPN, InitPacketNumberLength: quic.PacketNumberLen(cf.PNLen)}
	for _, l := range cf.PNLens {
		ps.InitPacketNumberLengths = append(ps.InitPacketNumberLengths, quic.PacketNumberLen(l))
	}
	var store *specgen.TokenStore
	switch cf.Token {
	case "store":
		store = &specgen.TokenStore{Tok: c10TokenBytes(cf.TokLen, 7)}
		ps.TokenStore = store
		if cf.Both {
			ps.ClientTokenLength = 16
		}
	case "storenil":
		store = &specgen.TokenStore{}
		ps.TokenStore = store
	case "len":
		ps.ClientTokenLength = cf.TokLen
	case "prefix":
		ps.ClientTokenLength = cf.TokLen
		ps.ClientTokenPrefix = c10TokenBytes(cf.PrefLen, 0)
	case "userconf":
		store = &specgen.TokenStore{Tok: c10TokenBytes(cf.TokLen, 9)}
		conf.TokenStore = store
	}
	switch cf.Builder {
	case "nil":
	case "empty":
		ps.FrameBuilder = quic.QUICFrames{}
	case "frames":
		ps.FrameBuilder = c10QUICFrames(cf.Frames[0])
	case "custom":
		ps.FrameBuilder = c10BuildOnly{c10QUICFrames(cf.Frames[0])}
	case "random":
		r := c10RandFrames(cf.Rand[0])
		ps.FrameBuilder = &r
	case "multi":
		m := &quic.QUICMultiDatagramFrames{}
		for _, r := range cf.Rand {
			m.PerDatagram = append(m.PerDatagram, c10RandFrames(r))
		}
		ps.FrameBuilder = m
	case "flight":
		f := &quic.QUICFlightFrames{}
		for _, d := range cf.Frames {
			f.Datagrams = append(f.Datagrams, c10QUICFrames(d))
		}
		ps.FrameBuilder = f
	case "randflight":
		f := &quic.QUICRandomFlightFrames{}
		for i, rs := range cf.Ranges {
			d := quic.QUICRandomFlightDatagram{Frames: c10RandFrames(cf.Rand[min(i, len(cf.Rand)-1)])}
			for _, r := range rs {
				d.CryptoRanges = append(d.CryptoRanges, quic.QUICCryptoRange{Offset: r[0], Length: r[1]})
			}
			f.PerDatagram = append(f.PerDatagram, d)
		}
		ps.FrameBuilder = f
	default:
		return nil, nil, nil, fmt.Errorf("unknown builder %q", cf.Builder)
	}
	for _, p := range cf.Plans {
		ps.InitialPackets = append(ps.InitialPackets, quic.InitialPacketPlan{CryptoLength: p.CL, PacketSize: p.PS})
	}
	return &quic.QUICSpec{InitialPacketSpec: ps, ClientHelloSpec: specgen.HelloSpec(cf.Hello, specgen.DefaultQTP()), UDPDatagramMinSize: cf.UDPMin}, conf, store, nil
}

// c10FromSpec reads the public fields of a built-in spec back into the configuration the
// interpreter works on.
func c10FromSpec(cf *c10Conf, spec *quic.QUICSpec) error {
	ps := &spec.InitialPacketSpec
	cf.DCID, cf.SCID, cf.InitPN, cf.PNLen, cf.UDPMin = ps.DestConnIDLength, ps.SrcConnIDLength, ps.InitPacketNumber, int(ps.InitPacketNumberLength), spec.UDPDatagramMinSize
	cf.PNLens = nil
	for _, l := range ps.InitPacketNumberLengths {
		cf.PNLens = append(cf.PNLens, int(l))
	}
	cf.Token = "none"
	if ps.TokenStore != nil || ps.ClientTokenLength != 0 || len(ps.ClientTokenPrefix) != 0 {
		return fmt.Errorf("built-in spec with a token: not modelled")
	}
	cf.Plans = nil
	for _, p := range ps.InitialPackets {
		cf.Plans = append(cf.Plans, c10Plan{p.CryptoLength, p.PacketSize})
	}
	switch b := ps.FrameBuilder.(type) {
	case nil:
		cf.Builder = "nil"
	case quic.QUICFrames:
		if len(b) != 0 {
			return fmt.Errorf("built-in spec with explicit QUICFrames: not modelled")
		}
		cf.Builder = "empty"
	case *quic.QUICRandomFrames:
		cf.Builder = "random"
		cf.Rand = []c10Rand{{int(b.MinPING), int(b.MaxPING), int(b.MinCRYPTO), int(b.MaxCRYPTO), int(b.MinPADDING), int(b.MaxPADDING), int(b.Length)}}
	default:
		return fmt.Errorf("built-in spec with builder %T: not modelled", b)
	}
	return nil
}

// ------------------------------------------------------------------------------------------------
// the spec interpreter

type c10Viol struct{ sig, detail string }

type c10Report struct {
	cf     *c10Conf
	viols  []c10Viol
	counts map[string]int64
}

func (r *c10Report) bad(sig, format string, a ...any) {
	for _, v := range r.viols {
		if v.sig == sig {
			return // one report per signature and dial is enough
		}
	}
	r.viols = append(r.viols, c10Viol{sig, fmt.Sprintf(format, a...)})
}

func (r *c10Report) count(k string, n int) { r.counts[k] += int64(n) }

func (cf *c10Conf) planFor(j int) c10Plan {
	if len(cf.Plans) == 0 {
		return c10Plan{}
	}
	return cf.Plans[min(j, len(cf.Plans)-1)]
}

func (cf *c10Conf) randFor(j int) c10Rand { return cf.Rand[min(j, len(cf.Rand)-1)] }

func (cf *c10Conf) maxPacketSize() int {
	ips := cf.IPS
	if ips == 0 {
		ips = 1280
	}
	return min(max(ips, 1200), 1452)
}

func (cf *c10Conf) udpMin() int {
	if cf.UDPMin == 0 {
		return 1200
	}
	return cf.UDPMin
}

func (cf *c10Conf) basePN() (base uint64, fallback bool) {
	if cf.InitPN > c10MaxPN {
		return 0, true
	}
	return cf.InitPN, false
}

// pnLenFor: the documented encoding length of the i-th Initial packet (0: library default, at least 2).
func (cf *c10Conf) pnLenFor(i int) int {
	if len(cf.PNLens) > 0 {
		return cf.PNLens[min(i, len(cf.PNLens)-1)]
	}
	return cf.PNLen
}

func (cf *c10Conf) flightBuilder() bool { return cf.Builder == "flight" || cf.Builder == "randflight" }

// errorAllowed: configurations whose documentation leaves "refuse to dial" open.
func (cf *c10Conf) errorAllowed() bool {
	if cf.InitPN > c10MaxPN || cf.flightBuilder() {
		return true
	}
	if cf.UDPMin > 1452 {
		return true // larger than any datagram the connection can send: refused before sending, or padded as far as possible
	}
	for _, p := range cf.Plans {
		if p.PS > 0 {
			return true // "Must leave room": decided after the fact from the natural size, or refused
		}
	}
	// a Length that cannot fit any packet together with the header the spec asks for
	tok := max(cf.TokLen, cf.PrefLen)
	if cf.Token == "none" || cf.Token == "storenil" {
		tok = 0
	}
	hdr := 7 + max(cf.DCID, 20) + cf.SCID + c10VarintLen(tok) + tok + 2 + 4
	for _, rd := range cf.Rand {
		if rd.Len > 0 && hdr+rd.Len+16 > 1452 {
			return true
		}
	}
	return false
}

// c10HelloLen: the ClientHello sizes of specgen.HelloSpec (server name localhost); used only to keep
// QUICFrames layouts tiling, as their documentation requires.
func c10HelloLen(kind string, scid int) int {
	if kind == "pad512" {
		return 512
	}
	return map[string]int{"small": 209, "mid": 713, "big1": 1063, "pq": 1431, "huge": 2935}[kind] + scid
}

// flightDatagrams: a pessimistic estimate of the number of datagrams of the first flight.  Flights
// are kept within the pacer's initial burst: the monitor is about what the datagrams look like, not
// about how fast they leave.
func (cf *c10Conf) flightDatagrams() int {
	if cf.flightBuilder() {
		return max(len(cf.Frames), len(cf.Ranges))
	}
	l := c10HelloLen(cf.Hello, cf.SCID)
	per := 800
	for _, rd := range cf.Rand {
		if rd.Len > 0 {
			per = min(per, max(rd.Len-40, 1))
		}
	}
	for _, pl := range cf.Plans {
		if pl.CL > 0 {
			per = min(per, pl.CL)
		}
	}
	return (l + per - 1) / per
}

// framesSafe: a QUICFrames / Build-only configuration whose every slice is tiled by the layout and whose
// explicit PADDING fits a packet.
func (cf *c10Conf) framesSafe() bool {
	if cf.Builder != "frames" && cf.Builder != "custom" {
		return true
	}
	if cf.Token != "none" && max(cf.TokLen, cf.PrefLen) > 70 {
		return false
	}
	l := c10HelloLen(cf.Hello, cf.SCID)
	pad := 0
	for _, f := range cf.Frames[0] {
		if f.K == "n" {
			pad += f.A
		}
	}
	off := 0
	for j := 0; off < l; j++ {
		pl := cf.planFor(j)
		n := l - off
		if pl.CL > 0 {
			n = min(n, pl.CL)
		}
		if n > 900 {
			return false // the packet size may cut the slice at a point this estimate does not know
		}
		if n < 64 || n+pad > 1100 {
			return false
		}
		if cf.Builder == "custom" && (j > 0 || n != l) {
			return false // Build() has no base offset: single-datagram specs only
		}
		off += n
	}
	return true
}

func c10Range(off, length, l int) (int, int, bool) {
	start := off
	if start < 0 {
		start += l
	}
	if start < 0 || start > l {
		return 0, 0, false
	}
	end := l + length
	if length > 0 {
		end = start + length
	}
	if end > l || end < start {
		return 0, 0, false
	}
	return start, end, true
}

type c10Item struct {
	k      byte // 'c' 'p' 'n'
	off, n int
}

func c10Items(p *specgen.Pkt) []c10Item {
	var out []c10Item
	for _, f := range p.Frames {
		switch f.Type {
		case wiretap.FtCrypto:
			out = append(out, c10Item{'c', int(f.Offset), len(f.Data)})
		case wiretap.FtPing:
			out = append(out, c10Item{'p', 0, 0})
		case wiretap.FtPadding:
			out = append(out, c10Item{'n', 0, f.Count})
		default:
			out = append(out, c10Item{'?', int(f.Type), 0})
		}
	}
	return out
}

func c10Merge(in []c10Item) []c10Item {
	var out []c10Item
	for _, it := range in {
		if it.k == 'n' && it.n == 0 {
			continue
		}
		if it.k == 'n' && len(out) > 0 && out[len(out)-1].k == 'n' {
			out[len(out)-1].n += it.n
			continue
		}
		out = append(out, it)
	}
	return out
}

func c10ItemsString(in []c10Item) string {
	var b strings.Builder
	for i, it := range in {
		if i > 0 {
			b.WriteByte(' ')
		}
		switch it.k {
		case 'c':
			fmt.Fprintf(&b, "C[%d+%d]", it.off, it.n)
		case 'p':
			b.WriteByte('P')
		case 'n':
			fmt.Fprintf(&b, "N%d", it.n)
		default:
			fmt.Fprintf(&b, "?%x", it.off)
		}
	}
	return b.String()
}

func c10VarintLen(v int) int {
	switch {
	case v < 1<<6:
		return 1
	case v < 1<<14:
		return 2
	case v < 1<<30:
		return 4
	}
	return 8
}

func c10ItemsLen(in []c10Item) int {
	n := 0
	for _, it := range in {
		switch it.k {
		case 'c':
			n += 1 + c10VarintLen(it.off) + c10VarintLen(it.n) + it.n
		case 'p':
			n++
		case 'n':
			n += it.n
		}
	}
	return n
}

// c10Layout resolves a QUICFrames layout against a slice of n bytes at stream offset base
// (QUICFrameCrypto doc: offsets relative to the slice, length 0 = to the end of the slice).
// ok is false if the layout does not tile the slice (the documentation requires that it does).
func c10Layout(l []c10Frame, base, n int) (items []c10Item, ok bool) {
	lowest := 1 << 30
	for _, f := range l {
		if f.K == "c" && f.A < lowest {
			lowest = f.A
		}
	}
	cover := make([]int, n)
	for _, f := range l {
		switch f.K {
		case "p":
			items = append(items, c10Item{'p', 0, 0})
		case "n":
			items = append(items, c10Item{'n', 0, f.A})
		case "c":
			rel := f.A - lowest
			length := f.B
			if length == 0 {
				length = n - rel
			}
			if rel < 0 || length <= 0 || rel+length > n {
				return nil, false
			}
			for i := rel; i < rel+length; i++ {
				cover[i]++
			}
			items = append(items, c10Item{'c', f.A + base, length})
		}
	}
	for _, c := range cover {
		if c != 1 {
			return nil, false
		}
	}
	return items, true
}

// c10FlightLayout resolves datagram j of a QUICFlightFrames plan against a stream of l bytes.
func c10FlightLayout(d []c10Frame, l int) (items []c10Item, ok bool) {
	for _, f := range d {
		switch f.K {
		case "p":
			items = append(items, c10Item{'p', 0, 0})
		case "n":
			items = append(items, c10Item{'n', 0, f.A})
		case "c":
			s, e, good := c10Range(f.A, f.B, l)
			if !good {
				return nil, false
			}
			items = append(items, c10Item{'c', s, e - s})
		}
	}
	return items, true
}

// c10FlightValid: does the declared flight cover a stream of l bytes with valid ranges?
func (cf *c10Conf) flightValid(l int) bool {
	cover := make([]bool, l)
	mark := func(off, length int) bool {
		s, e, ok := c10Range(off, length, l)
		if !ok {
			return false
		}
		for i := s; i < e; i++ {
			cover[i] = true
		}
		return true
	}
	switch cf.Builder {
	case "flight":
		for _, d := range cf.Frames {
			for _, f := range d {
				if f.K == "c" && !mark(f.A, f.B) {
					return false
				}
			}
		}
	case "randflight":
		for _, rs := range cf.Ranges {
			any := false
			for _, r := range rs {
				if !mark(r[0], r[1]) {
					return false
				}
				if s, e, _ := c10Range(r[0], r[1], l); e > s {
					any = true
				}
			}
			if !any {
				return false
			}
		}
	}
	for _, c := range cover {
		if !c {
			return false
		}
	}
	return true
}

func c10Between(x, lo, hi int) bool { return x >= lo && x <= hi }

// c10RandBounds: inclusive bounds of a [Min, Max) draw where Max <= Min means "exactly Min".
func c10RandBounds(mn, mx int) (int, int) { return mn, max(mn, mx-1) }

type c10Dgram struct {
	d    *specgen.Dgram
	p    *specgen.Pkt
	idx  int // index among the Initial packets of the dial
	pto  bool
	j    int // flight datagram index (flight datagrams only)
	base int // CRYPTO bytes carried by earlier flight datagrams
}

// c10Check compares one captured dial with the configuration.  prevTokens are the tokens of the
// earlier dials of the same configuration.
func c10Check(r *c10Report, cf *c10Conf, cap *specgen.DialCapture, store *specgen.TokenStore, prevTokens [][]byte, prevDCIDs [][]byte) (token, dcid []byte, fp string) {
	builder := "builder=" + cf.Builder
	if cf.QUICID != "" {
		builder = "quicid=" + cf.QUICID
	}
	base, fallback := cf.basePN()
	maxPS := cf.maxPacketSize()
	raws := cap.Dgrams
	r.count("dials", 1)

	// ---- decode
	var all []*c10Dgram
	expected, prev := int64(base), int64(-1)
	pnOpen := true // false once the expected packet number left [0, 2^62-1]
	for _, raw := range raws {
		hint := expected
		if !pnOpen {
			hint = -1
		}
		d := specgen.Decode(raw, nil, hint, prev)
		r.count("datagrams", 1)
		if len(all) > 0 && (len(d.Pkts) == 0 || d.Pkts[0].Kind != wiretap.KindInitial || !bytes.Equal(d.Pkts[0].DCID, all[0].p.DCID)) {
			break // the client has heard from the server and moved on: the first flight is over
		}
		if len(d.Pkts) >= 1 && d.Pkts[0].Opened && c10Closing(&d.Pkts[0]) {
			break // the client gave up (CONNECTION_CLOSE): what follows is not part of the flight
		}
		if len(d.Pkts) != 1 || d.Pkts[0].Kind != wiretap.KindInitial {
			r.bad("C10|datagram|not-a-single-initial-packet|"+builder, "datagram %d of the first flight: %d packets, split error %q", len(all), len(d.Pkts), d.SplitErr)
			continue
		}
		p := &d.Pkts[0]
		if !p.Opened {
			if !pnOpen {
				r.count("packets_beyond_2^62-1_not_opened", 1)
				continue
			}
			r.bad("C10|header|cannot-open|"+builder, "Initial packet %d (expected packet number %d): %s", len(all), expected, p.Err)
			continue
		}
		all = append(all, &c10Dgram{d: d, p: p, idx: len(all)})
		prev = max(prev, int64(p.PN))
		if pnOpen {
			expected++
			if uint64(expected) > c10MaxPN {
				pnOpen = false
			}
		}
		r.count("packets_opened", 1)
		r.count("pn_hint_"+p.Hint, 1)
	}

	// ---- nothing on the wire
	errClass := "nil"
	if cap.Err != nil && !cap.TimedOut {
		errClass = "error"
	} else if cap.TimedOut {
		errClass = "window-closed"
	}
	if len(all) == 0 && c10NothingSent(raws) {
		switch {
		case errClass == "error" && cf.errorAllowed():
			r.count("refused_before_sending", 1)
			return nil, nil, "refused"
		case errClass == "error":
			r.bad("C10|dial|refused-a-valid-spec|"+c10ErrClass(cap.Err)+"|"+builder, "nothing was sent, dial error: %v", cap.Err)
		default:
			r.bad("C10|dial|nothing-sent|"+builder, "nothing was sent, dial outcome %s (%v)", errClass, cap.Err)
		}
		return nil, nil, "nothing"
	}
	if len(all) == 0 {
		return nil, nil, "unreadable"
	}

	// ---- split into first flight and retransmissions: the flight ends when the ClientHello is complete
	var re specgen.Reasm
	var flight, retx []*c10Dgram
	var hello []byte
	for _, g := range all {
		if hello != nil {
			g.pto = true
			retx = append(retx, g)
			continue
		}
		g.j = len(flight)
		g.base = len(re.Prefix())
		for _, f := range g.p.Frames {
			if f.Type == wiretap.FtCrypto {
				re.Add(f.Offset, f.Data)
			}
		}
		flight = append(flight, g)
		hello = re.ClientHello()
	}
	helloLen := len(hello)
	r.count("flight_datagrams", len(flight))
	r.count("retransmitted_datagrams", len(retx))
	if re.Conflict {
		r.bad("C10|flight|crypto-frames-disagree|"+builder, "two CRYPTO frames carry different bytes for the same offset")
	}
	if hello != nil && len(re.Prefix()) != helloLen {
		r.bad("C10|flight|crypto-beyond-clienthello|"+builder, "CRYPTO stream has %d bytes, ClientHello %d", len(re.Prefix()), helloLen)
	}
	if cf.flightBuilder() && hello != nil && !cf.flightValid(helloLen) {
		r.bad("C10|flight|invalid-plan-was-sent|"+builder, "the declared ranges do not cover a %d byte stream, the flight was sent anyway", helloLen)
		return nil, nil, "invalid-plan-sent"
	}

	// ---- headers, numbering, token: every Initial packet, retransmissions included
	first := all[0].p
	token, dcid = first.Token, first.DCID
	ambiguous := false
	for _, g := range all {
		p := g.p
		where := fmt.Sprintf("idx=%d", min(g.idx, 2))
		if g.pto {
			where = "pto"
		}
		if p.Version != 1 {
			r.bad("C10|header|version|"+builder, "packet %d has version %#x", g.idx, p.Version)
		}
		if p.First&0x0c != 0 {
			r.bad("C10|header|reserved-bits-set|"+builder, "packet %d first byte %#x", g.idx, p.First)
		}
		switch {
		case cf.DCID > 0 && len(p.DCID) != cf.DCID:
			r.bad("C10|header|dcid-length|"+builder, "packet %d: DCID %d bytes, spec %d", g.idx, len(p.DCID), cf.DCID)
		case cf.DCID == 0 && !c10Between(len(p.DCID), 8, 20):
			r.bad("C10|header|dcid-length|"+builder, "packet %d: library-chosen DCID of %d bytes", g.idx, len(p.DCID))
		}
		if len(p.SCID) != cf.SCID {
			r.bad("C10|header|scid-length|"+builder, "packet %d: SCID %d bytes, spec %d", g.idx, len(p.SCID), cf.SCID)
		}
		if !bytes.Equal(p.DCID, first.DCID) || !bytes.Equal(p.SCID, first.SCID) {
			r.bad("C10|header|connection-id-changed-within-flight|"+builder, "packet %d: DCID %x SCID %x, first packet %x %x", g.idx, p.DCID, p.SCID, first.DCID, first.SCID)
		}
		if !bytes.Equal(p.Token, first.Token) {
			r.bad("C10|token|changed-within-connection|"+builder, "packet %d token %x, first packet %x", g.idx, p.Token, first.Token)
		}
		want := base + uint64(g.idx)
		if want <= c10MaxPN {
			r.count("pn_checked", 1)
			if p.PN != want {
				cls := "increment"
				if g.idx == 0 {
					cls = "first"
				}
				if fallback {
					cls += "|initpn>2^62-1"
				}
				r.bad("C10|pn|"+cls+"|"+where+"|"+builder, "packet %d has packet number %d (opened with hint %q), spec: %d + %d", g.idx, p.PN, p.Hint, base, g.idx)
			}
			wl := cf.pnLenFor(g.idx)
			r.count("pnlen_checked", 1)
			switch {
			case wl == 0 && !c10Between(p.PNLen, 2, 4):
				r.bad("C10|pnlen|default-shorter-than-2|"+where+"|"+builder, "packet %d: %d-byte packet number, no length in the spec (default: at least 2)", g.idx, p.PNLen)
			case wl != 0 && fallback:
				// the documentation indexes the list from PN=InitPacketNumber, which is never sent here: any listed length is accepted
				okLen := p.PNLen == cf.PNLen && len(cf.PNLens) == 0
				for _, x := range cf.PNLens {
					okLen = okLen || x == p.PNLen
				}
				if !okLen {
					r.bad("C10|pnlen|not-a-listed-length|initpn>2^62-1|"+builder, "packet %d: %d-byte encoding, spec lengths %v / %d", g.idx, p.PNLen, cf.PNLens, cf.PNLen)
				}
				if p.PNLen != wl {
					r.count("pnlen_fallback_index_shift_observed", 1)
				}
			case wl != 0 && p.PNLen != wl:
				cls := where
				r.bad("C10|pnlen|mismatch|"+cls+"|"+builder, "packet %d (packet number %d): %d-byte encoding, spec entry says %d (lengths %v / %d)", g.idx, p.PN, p.PNLen, wl, cf.PNLens, cf.PNLen)
			}
			// what a receiver that has seen the earlier packets decodes
			var largest int64 = -1
			if g.idx > 0 {
				largest = int64(want - 1)
			}
			if wiretap.DecodePN(largest, p.Trunc, uint(8*p.PNLen)) != p.PN {
				ambiguous = true
			}
		}
		if other := func() int { _, _, _, _, o := p.Counts(); return o }(); other > 0 || p.FrameErr != "" {
			r.bad("C10|frames|not-padding-ping-crypto|"+builder, "packet %d: %s %s", g.idx, p.Layout(), p.FrameErr)
		}
		if !g.d.TrailZero {
			r.bad("C10|size|non-zero-bytes-after-the-packet|"+builder, "datagram %d: %d trailing bytes, not all zero", g.idx, g.d.Trailing)
		}
	}
	for _, o := range prevDCIDs {
		if len(dcid) >= 8 && bytes.Equal(o, dcid) {
			r.bad("C10|header|dcid-reused-across-dials|"+builder, "DCID %x was used by an earlier dial", dcid)
		}
	}

	// ---- token
	r.count("tokens_checked", 1)
	tokCls := "token=" + cf.Token
	switch cf.Token {
	case "none", "storenil":
		if len(token) != 0 {
			r.bad("C10|token|present-but-none-specified|"+tokCls, "token %x", token)
		}
	case "store", "userconf":
		if !bytes.Equal(token, store.Tok) {
			r.bad("C10|token|not-the-stores-token|"+tokCls, "token %x, store hands out %x", token, store.Tok)
		}
	case "len", "prefix":
		wantLen := max(cf.TokLen, cf.PrefLen)
		pre := c10TokenBytes(cf.PrefLen, 0)
		if len(token) != wantLen {
			r.bad("C10|token|length|"+tokCls, "token of %d bytes, spec: length %d prefix %d bytes", len(token), cf.TokLen, cf.PrefLen)
		} else if !bytes.HasPrefix(token, pre) {
			r.bad("C10|token|prefix|"+tokCls, "token %x does not start with %x", token, pre)
		} else if tail := wantLen - cf.PrefLen; tail >= 8 {
			for _, o := range prevTokens {
				if len(o) == len(token) && bytes.Equal(o[cf.PrefLen:], token[cf.PrefLen:]) {
					r.bad("C10|token|not-fresh-per-dial|"+tokCls, "random tail %x equals the one of an earlier dial", token[cf.PrefLen:])
				}
			}
			r.count("token_freshness_checked", 1)
		}
	}
	if store != nil && (cf.Token == "store" || cf.Token == "storenil" || cf.Token == "userconf") {
		for _, k := range store.TakePops() {
			if k != "localhost" {
				r.bad("C10|token|store-key|"+tokCls, "TokenStore.Pop(%q), server name is localhost", k)
			}
		}
	}

	// ---- the first flight, datagram by datagram
	open4 := false
	stuck := false
	for _, g := range flight {
		if cf.flightBuilder() && hello == nil {
			break
		}
		pl := cf.planFor(g.j)
		if g.j >= 1 && pl != cf.planFor(0) && (cf.Builder == "nil" || cf.Builder == "empty" || cf.Builder == "custom") {
			// does the datagram follow entry [0] of InitialPackets instead of its own entry?
			if !c10Datagram(r, cf, g, pl, helloLen, builder, true) && c10Datagram(r, cf, g, cf.planFor(0), helloLen, builder, true) {
				stuck = true
				_, lo, hi := g.p.CryptoBytes()
				r.bad("C10|plan|datagram-follows-entry-0-instead-of-its-own|"+builder, "flight datagram %d (%d bytes, CRYPTO [%d,%d), %d trailing bytes) follows InitialPackets[0]=%+v, not its own entry %+v", g.j, len(g.d.Raw), lo, hi, g.d.Trailing, cf.planFor(0), pl)
				continue
			}
		}
		c10Datagram(r, cf, g, pl, helloLen, builder, false)
		if pl.PS > 0 && len(g.d.Raw) > pl.PS {
			open4 = true
		}
	}
	if hello == nil && !stuck {
		switch {
		case errClass == "error" && cf.errorAllowed():
			r.count("refused_mid_flight", 1)
		case errClass == "error":
			r.bad("C10|dial|refused-a-valid-spec-mid-flight|"+c10ErrClass(cap.Err)+"|"+builder, "%d datagrams sent, contiguous CRYPTO prefix %d bytes, then the dial failed: %v", len(all), len(re.Prefix()), cap.Err)
		default:
			r.bad("C10|flight|clienthello-incomplete|"+builder, "%d datagrams captured, contiguous CRYPTO prefix %d bytes, dial outcome %s (%v)", len(all), len(re.Prefix()), errClass, cap.Err)
		}
	}
	if cf.Builder == "flight" && hello != nil && len(flight) != len(cf.Frames) {
		r.bad("C10|flight|datagram-count|"+builder, "%d datagrams, the plan declares %d", len(flight), len(cf.Frames))
	}
	if cf.Builder == "randflight" && hello != nil && len(flight) != len(cf.Ranges) {
		r.bad("C10|flight|datagram-count|"+builder, "%d datagrams, the plan declares %d", len(flight), len(cf.Ranges))
	}
	// CRYPTO of per-datagram builders is handed out in stream order
	if !cf.flightBuilder() {
		for _, g := range flight {
			if n, lo, hi := g.p.CryptoBytes(); n > 0 && (int(lo) != g.base || int(hi)-int(lo) != n) {
				r.bad("C10|split|datagram-slice-not-contiguous|"+builder, "flight datagram %d carries %d CRYPTO bytes in [%d,%d), earlier datagrams carried [0,%d)", g.j, n, lo, hi, g.base)
			}
		}
	}

	// ---- retransmissions: size limits only (headers were checked above)
	for _, g := range retx {
		limit := max(maxPS, cf.udpMin())
		for _, pl := range cf.Plans {
			limit = max(limit, pl.PS)
		}
		switch cf.Builder {
		case "frames", "custom", "flight", "randflight":
			continue // explicit layouts applied to whatever is retransmitted: size follows from the layout
		case "random", "multi":
			rd := cf.randFor(0)
			for _, x := range cf.Rand {
				if x.Len > rd.Len {
					rd = x
				}
			}
			cp := c10CryptoPingLen(g.p)
			if _, _, _, padBytes, _ := g.p.Counts(); rd.Len > 0 && cp <= rd.Len && padBytes > 0 {
				limit = max(limit, g.p.HdrLen+len(g.p.Payload)+16) // padded up to Length (its exactness is checked on the flight)
			}
		}
		if len(g.d.Raw) > limit {
			r.bad("C10|size|exceeds-max-packet-size|pto|"+builder, "retransmission datagram (packet %d) is %d bytes; maximum packet size %d, largest size the spec asks for %d; frames: %s", g.idx, len(g.d.Raw), maxPS, limit, c10Short(g.p.Layout()))
		}
	}

	// ---- a conformant server decrypts the flight and the handshake completes
	if cf.Live {
		liveOK := !fallback && !ambiguous && !open4 && (cf.DCID == 0 || cf.DCID >= 8) && len(r.viols) == 0
		for _, pl := range cf.Plans {
			if pl.PS > 0 && pl.PS < 1200 {
				liveOK = false
			}
		}
		switch {
		case cap.Err == nil:
			r.count("live_handshakes_completed", 1)
		case liveOK:
			r.bad("C10|live|handshake-failed|"+c10ErrClass(cap.Err)+"|"+builder, "the in-tree server did not complete the handshake: %v", cap.Err)
		default:
			r.count("live_failures_in_open_configurations", 1)
		}
	} else if errClass == "error" && hello != nil && !cf.errorAllowed() {
		r.bad("C10|dial|error-after-the-flight|"+c10ErrClass(cap.Err)+"|"+builder, "dial error with a dead server: %v", cap.Err)
	}

	// ---- second reader
	c10SecondReader(r, cf, flight, builder)

	// ---- behaviour class
	cry, pin, pad := 0, 0, 0
	for _, g := range flight {
		c, p, n, _, _ := g.p.Counts()
		cry, pin, pad = cry+c, pin+p, pad+n
	}
	fp = fmt.Sprintf("%s/%s|dg=%d|retx=%d|c=%d|p=%d|n=%d|pn=%d|tok=%d|%s", cf.Name, errClass, len(flight), min(len(retx), 3), min(cry, 12), min(pin, 4), min(pad, 4), first.PNLen, min(len(token), 1), c10Bucket(len(all[0].d.Raw)))
	return token, dcid, fp
}

// c10Closing: the packet carries ACK or CONNECTION_CLOSE frames, i.e. it is not part of the first flight.
func c10Closing(p *specgen.Pkt) bool {
	for _, f := range p.Frames {
		switch f.Type {
		case wiretap.FtConnClose, wiretap.FtConnCloseApp, wiretap.FtAck, wiretap.FtAckECN:
			return true
		}
	}
	return false
}

// c10NothingSent: no datagram, or only the CONNECTION_CLOSE of a client that gave up before its first flight.
func c10NothingSent(raws [][]byte) bool {
	for _, raw := range raws {
		d := specgen.Decode(raw, nil, -1, -1)
		if len(d.Pkts) == 0 || !d.Pkts[0].Opened || !c10Closing(&d.Pkts[0]) {
			return false
		}
	}
	return true
}

func c10ErrClass(err error) string {
	s := fmt.Sprint(err)
	switch {
	case strings.Contains(s, "does not fit the packet buffer"):
		return "does-not-fit-the-packet-buffer"
	case strings.Contains(s, "BuildFlight"):
		return "BuildFlight"
	}
	if len(s) > 60 {
		s = s[:60]
	}
	out := []byte(s)
	for i, ch := range out {
		if ch >= '0' && ch <= '9' {
			out[i] = '#'
		}
	}
	return string(out)
}

func c10Bucket(n int) string {
	switch {
	case n < 1200:
		return "<1200"
	case n == 1200:
		return "1200"
	case n <= 1280:
		return "<=1280"
	case n <= 1452:
		return "<=1452"
	}
	return ">1452"
}

func c10Short(s string) string {
	if len(s) > 300 {
		return s[:300] + "..."
	}
	return s
}

func c10CryptoPingLen(p *specgen.Pkt) int {
	n := 0
	for _, f := range p.Frames {
		if f.Type == wiretap.FtCrypto || f.Type == wiretap.FtPing {
			n += f.Len
		}
	}
	return n
}

// c10Datagram checks frames and sizes of one first-flight datagram against plan pl.  It returns
// false if the datagram does not follow the plan.  With probe set nothing is reported.
func c10Datagram(r *c10Report, cf *c10Conf, g *c10Dgram, pl c10Plan, helloLen int, builder string, probe bool) bool {
	p, d := g.p, g.d
	ok := true
	bad := func(sig, format string, a ...any) {
		ok = false
		if !probe {
			r.bad(sig, format, a...)
		}
	}
	items := c10Merge(c10Items(p))
	crypto, ping, padRuns, padBytes, _ := p.Counts()
	nCrypto, _, _ := p.CryptoBytes()
	payload := len(p.Payload)
	cp := c10CryptoPingLen(p)
	maxPS := cf.maxPacketSize()
	where := fmt.Sprintf("dgram=%d", min(g.j, 2))

	// ---- the frames the builder is documented to produce, and their total length b
	b := -1           // builder payload length (without exact-size padding); -1 unknown
	explicit := false // the size of the payload follows from explicit spec entries
	switch cf.Builder {
	case "nil", "empty":
		b = cp
		if crypto != 1 || ping != 0 {
			bad("C10|frames|single-crypto-frame-expected|"+builder, "flight datagram %d: %s", g.j, c10Short(p.Layout()))
		}
		if padRuns > 1 || (padRuns == 1 && items[len(items)-1].k != 'n') {
			bad("C10|frames|padding-not-trailing|"+builder, "flight datagram %d: %s", g.j, c10Short(p.Layout()))
		}
	case "frames", "custom":
		base := g.base
		if cf.Builder == "custom" {
			base = 0 // Build(cryptoData) knows no base offset: single-datagram specs only
		}
		want, tiles := c10Layout(cf.Frames[0], base, nCrypto)
		if !tiles {
			if !probe {
				r.count("layouts_not_tiling_their_slice", 1)
			}
			break
		}
		explicit = true
		b = c10ItemsLen(want)
		e := payload - b
		if e > 0 {
			want = append(want, c10Item{'n', 0, e})
		}
		if got, w := c10ItemsString(items), c10ItemsString(c10Merge(want)); got != w {
			bad("C10|frames|layout-mismatch|"+builder, "flight datagram %d: wire %s, spec %s", g.j, c10Short(got), c10Short(w))
		}
	case "flight":
		want, valid := c10FlightLayout(cf.Frames[min(g.j, len(cf.Frames)-1)], helloLen)
		if !valid {
			break
		}
		explicit = true
		b = c10ItemsLen(want)
		if e := payload - b; e > 0 {
			want = append(want, c10Item{'n', 0, e})
		}
		if got, w := c10ItemsString(items), c10ItemsString(c10Merge(want)); got != w {
			bad("C10|frames|layout-mismatch|"+builder, "flight datagram %d: wire %s, spec %s", g.j, c10Short(got), c10Short(w))
		}
	case "random", "multi", "randflight":
		rd := cf.randFor(g.j)
		lo, hi := c10RandBounds(rd.PI, rd.PA)
		if !c10Between(ping, lo, hi) {
			bad("C10|frames|ping-count-out-of-bounds|"+builder, "flight datagram %d: %d PING frames, spec [%d,%d)", g.j, ping, rd.PI, rd.PA)
		}
		clo, chi := c10RandBounds(max(rd.CI, 1), max(rd.CA, 1))
		if cf.Builder == "randflight" {
			// every range is cut on its own; the datagram must carry exactly its ranges
			rs := cf.Ranges[min(g.j, len(cf.Ranges)-1)]
			want := make([]bool, helloLen)
			mn, mx := 0, 0
			for _, x := range rs {
				s, e, _ := c10Range(x[0], x[1], helloLen)
				if e <= s {
					continue
				}
				for i := s; i < e; i++ {
					want[i] = true
				}
				mn += min(clo, e-s)
				mx += min(chi, e-s)
			}
			got := make([]int, helloLen)
			for _, f := range p.Frames {
				if f.Type == wiretap.FtCrypto {
					for i := int(f.Offset); i < int(f.Offset)+len(f.Data) && i < helloLen; i++ {
						got[i]++
					}
				}
			}
			for i := range want {
				if (got[i] == 1) != want[i] || got[i] > 1 {
					bad("C10|split|datagram-does-not-carry-its-ranges|"+builder, "flight datagram %d: byte %d carried %d times, declared ranges %v of a %d byte stream; frames %s", g.j, i, got[i], rs, helloLen, c10Short(p.Layout()))
					break
				}
			}
			if !c10Between(crypto, mn, mx) {
				bad("C10|frames|crypto-count-out-of-bounds|"+builder, "flight datagram %d: %d CRYPTO frames, spec [%d,%d) per range, %d ranges", g.j, crypto, rd.CI, rd.CA, len(rs))
			}
			explicit = true
		} else {
			if !c10Between(crypto, min(clo, nCrypto), min(chi, nCrypto)) {
				bad("C10|frames|crypto-count-out-of-bounds|"+builder, "flight datagram %d: %d CRYPTO frames for %d bytes, spec [%d,%d)", g.j, crypto, nCrypto, rd.CI, rd.CA)
			}
			// the frames tile the datagram's slice
			cover := make([]int, nCrypto)
			for _, f := range p.Frames {
				if f.Type == wiretap.FtCrypto {
					for i := int(f.Offset) - g.base; i < int(f.Offset)-g.base+len(f.Data); i++ {
						if i >= 0 && i < nCrypto {
							cover[i]++
						}
					}
				}
			}
			for i, c := range cover {
				if c != 1 {
					bad("C10|split|frames-do-not-tile-the-slice|"+builder, "flight datagram %d: byte %d of the slice carried %d times; %s", g.j, g.base+i, c, c10Short(p.Layout()))
					break
				}
			}
		}
		b = max(cp, rd.Len)
		if cp <= rd.Len && rd.Len > 0 {
			explicit = true // the spec asks for exactly Length bytes of frames
		}
		// "Length specifies the total length of all frames including PADDING frames."  Where the total is
		// larger although CRYPTO+PING fit, report it once and go on with the actual total (no follow-up reports).
		natural := p.HdrLen + b + 16
		if over := payload - b; over > 0 && cp < rd.Len+over && (pl.PS == 0 || natural > pl.PS || p.End > pl.PS) && padBytes >= over && padBytes == (b-cp)+over {
			bad("C10|frames|total-length-above-Length|"+builder, "flight datagram %d (CRYPTO from offset %d): %d bytes of frames (CRYPTO+PING %d, PADDING %d), Length %d", g.j, g.base, payload, cp, padBytes, rd.Len)
			b += over
		}
		e := payload - b
		if e < 0 {
			bad("C10|frames|total-length-below-Length|"+builder+"|"+where, "flight datagram %d: %d bytes of frames, CRYPTO+PING %d, Length %d", g.j, payload, cp, rd.Len)
			e = 0
		}
		if pl.PS == 0 && e != 0 {
			bad("C10|frames|total-length-mismatch|"+builder+"|"+where, "flight datagram %d: %d bytes of frames, CRYPTO+PING %d, Length %d, no PacketSize", g.j, payload, cp, rd.Len)
		}
		if padBytes != (b-cp)+e {
			bad("C10|frames|padding-bytes|"+builder, "flight datagram %d: %d PADDING bytes, expected %d + %d", g.j, padBytes, b-cp, e)
		}
		plo, phi := c10RandBounds(rd.DI, rd.DA)
		extra := 0
		if e > 0 {
			extra = 1
		}
		switch {
		case b-cp > 0 && !c10Between(padRuns, 1, max(plo, phi)+extra):
			bad("C10|frames|padding-count-out-of-bounds|"+builder, "flight datagram %d: %d PADDING runs for %d bytes, spec [%d,%d) frames (+%d for exact-size padding)", g.j, padRuns, padBytes, rd.DI, rd.DA, extra)
		case b-cp == 0 && padRuns == extra+1 && g.base > 0 && e > 0:
			bad("C10|frames|total-length-above-Length|"+builder, "flight datagram %d (CRYPTO from offset %d): CRYPTO+PING make %d bytes >= Length %d, yet there is a PADDING run besides the exact-size padding: %s", g.j, g.base, cp, rd.Len, c10Short(p.Layout()))
		case b-cp == 0 && padRuns != extra:
			bad("C10|frames|padding-although-Length-is-exceeded|"+builder, "flight datagram %d: %d PADDING runs, CRYPTO+PING %d >= Length %d", g.j, padRuns, cp, rd.Len)
		}
	}

	// ---- CryptoLength: how much of the stream the datagram carries (per-datagram builders)
	if !cf.flightBuilder() && pl.CL > 0 && helloLen > 0 {
		want := min(pl.CL, helloLen-g.base)
		full := len(d.Raw) >= maxPS-64
		if nCrypto != want && !(nCrypto < want && full) {
			bad("C10|split|crypto-length|"+builder+"|"+where, "flight datagram %d carries %d CRYPTO bytes from offset %d, plan CryptoLength %d, %d bytes were left", g.j, nCrypto, g.base, pl.CL, helloLen-g.base)
		}
	}

	// ---- sizes
	quicLen := p.End
	if pl.PS > 0 {
		if d.Trailing != 0 {
			bad("C10|size|udp-padding-after-exact-size-packet|"+builder+"|"+where, "flight datagram %d: %d bytes after the QUIC packet although PacketSize %d is set", g.j, d.Trailing, pl.PS)
		}
		if b >= 0 {
			e := payload - b
			natural := quicLen - e
			switch {
			case natural <= pl.PS && quicLen != pl.PS:
				bad("C10|size|packet-size-mismatch|"+builder+"|"+where, "flight datagram %d: QUIC packet of %d bytes (%d without exact-size padding), plan PacketSize %d", g.j, quicLen, natural, pl.PS)
			case natural > pl.PS && e != 0:
				bad("C10|size|padded-beyond-packet-size|"+builder+"|"+where, "flight datagram %d: %d bytes of exact-size padding although the packet is already %d > PacketSize %d", g.j, e, natural, pl.PS)
			}
		}
	} else {
		m := cf.udpMin()
		switch {
		case quicLen < m && len(d.Raw) != m:
			bad("C10|size|udp-min-padding|"+builder+"|"+where, "flight datagram %d: QUIC packet %d bytes, datagram %d bytes, UDPDatagramMinSize %d", g.j, quicLen, len(d.Raw), m)
		case quicLen >= m && d.Trailing != 0:
			bad("C10|size|udp-padding-not-needed|"+builder+"|"+where, "flight datagram %d: QUIC packet %d bytes >= UDPDatagramMinSize %d, yet %d trailing bytes", g.j, quicLen, m, d.Trailing)
		}
	}
	limit := maxPS
	if pl.PS > 0 {
		limit = max(limit, pl.PS)
	} else {
		limit = max(limit, cf.udpMin())
	}
	if explicit && b >= 0 {
		limit = max(limit, p.HdrLen+b+16)
	}
	if len(d.Raw) > limit {
		bad("C10|size|exceeds-max-packet-size|"+builder, "flight datagram %d is %d bytes; maximum packet size %d, largest size the spec asks for %d; %d CRYPTO + %d PING frames make %d bytes of frames; %s", g.j, len(d.Raw), maxPS, limit, crypto, ping, cp, c10Short(p.Layout()))
	}
	if !probe {
		r.count("flight_datagrams_checked", 1)
		r.count("crypto_frames", crypto)
		r.count("ping_frames", ping)
		r.count("padding_runs", padRuns)
		if pl.PS > 0 {
			r.count("exact_size_datagrams", 1)
		}
		if d.Trailing > 0 {
			r.count("udp_padded_datagrams", 1)
		}
	}
	return ok
}

// c10SecondReader runs clienthellod over the same bytes (only where its reading of the packet
// number — the truncated value as is — is the right one).
func c10SecondReader(r *c10Report, cf *c10Conf, flight []*c10Dgram, builder string) {
	for _, g := range flight {
		p := g.p
		if p.PN >= 1<<(8*uint(p.PNLen)) || len(p.Payload)+p.PNLen+16 < 20 {
			continue
		}
		ci, err := clienthellod.UnmarshalQUICClientInitialPacket(g.d.Raw)
		if err != nil {
			r.bad("C10|second-reader|cannot-read|"+builder, "clienthellod: %v (flight datagram %d)", err, g.j)
			continue
		}
		r.count("second_reader_packets", 1)
		h := ci.Header
		var pn uint64
		for _, x := range h.PacketNumber {
			pn = pn<<8 | uint64(x)
		}
		var types []uint64
		for _, f := range p.Frames {
			n := 1
			if f.Type == wiretap.FtPadding {
				n = f.Count
			}
			for i := 0; i < n; i++ {
				types = append(types, f.Type)
			}
		}
		same := int(h.DCIDLength) == len(p.DCID) && int(h.SCIDLength) == len(p.SCID) && pn == p.PN && len(h.PacketNumber) == p.PNLen && h.HasToken == (len(p.Token) > 0)
		if same {
			// clienthellod collapses a run of PADDING into one entry or lists every byte, depending on version
			ft := ci.FrameTypes
			same = c10SameTypes(ft, types)
		}
		if !same {
			r.bad("C10|second-reader|disagrees|"+builder, "clienthellod: dcid %d scid %d pn %x token %v frames %v; observer: dcid %d scid %d pn %d/%d token %d bytes, %s", h.DCIDLength, h.SCIDLength, []byte(h.PacketNumber), h.HasToken, c10ShortInts(ci.FrameTypes), len(p.DCID), len(p.SCID), p.PN, p.PNLen, len(p.Token), c10Short(p.Layout()))
		}
	}
}

func c10ShortInts(v []uint64) string {
	if len(v) > 40 {
		return fmt.Sprint(v[:40]) + "..."
	}
	return fmt.Sprint(v)
}

// c10SameTypes compares frame type sequences modulo the length of PADDING runs.
func c10SameTypes(a, b []uint64) bool {
	sq := func(in []uint64) []uint64 {
		var out []uint64
		for _, x := range in {
			if x == 0 && len(out) > 0 && out[len(out)-1] == 0 {
				continue
			}
			out = append(out, x)
		}
		return out
	}
	a, b = sq(a), sq(b)
	if len(a) != len(b) {
		return false
	}
	for i := range a {
		if a[i] != b[i] {
			return false
		}
	}
	return true
}

// ------------------------------------------------------------------------------------------------
// the configuration space

var (
	c10DCIDs   = []int{0, 1, 7, 8, 9, 15, 20}
	c10SCIDs   = []int{0, 1, 3, 8, 20}
	c10PNs     = []uint64{0, 1, 2, 255, 256, 65535, 1<<32 - 1, 1<<62 - 2, 1<<62 - 1, 1 << 62, 1<<64 - 1}
	c10PNLens  = [][]int{nil, {1}, {2}, {3}, {4}, {1, 2}, {2, 1}, {4, 1, 2}, {1, 1, 1, 3}, {3, 4}}
	c10IPSs    = []int{0, 1200, 1252, 1280, 1452}
	c10UDPs    = []int{0, 1200, 1357, 1452}
	c10Plans   = [][]c10Plan{nil, {{0, 1200}}, {{0, 1250}}, {{100, 1200}, {0, 1250}}, {{999, 1200}, {0, 1200}}, {{150, 0}}, {{150, 0}, {40, 1210}, {0, 0}}, {{0, 300}}, {{0, 1400}}, {{5000, 0}}, {{600, 1232}, {0, 1232}}}
	c10Layouts = [][]c10Frame{
		{{K: "c", A: 0, B: 0}},
		{{K: "p"}, {K: "c", A: 0, B: 0}},
		{{K: "c", A: 0, B: 10}, {K: "c", A: 10, B: 0}},
		{{K: "p"}, {K: "c", A: 50, B: 0}, {K: "n", A: 10}, {K: "n", A: 5}, {K: "c", A: 0, B: 50}},
		{{K: "c", A: 11, B: 0}, {K: "n", A: 300}, {K: "c", A: 1, B: 10}, {K: "p"}, {K: "p"}, {K: "c", A: 0, B: 1}, {K: "n", A: 1}},
		{{K: "n", A: 700}, {K: "c", A: 0, B: 0}, {K: "p"}},
		{{K: "c", A: 30, B: 0}, {K: "c", A: 20, B: 10}, {K: "c", A: 0, B: 20}, {K: "n", A: 64}},
	}
	c10Rands = []c10Rand{
		{0, 10, 1, 10, 3, 6, 1215},
		{1, 4, 6, 14, 2, 6, 1215},
		{0, 0, 1, 1, 0, 0, 0},
		{2, 2, 3, 3, 1, 1, 900},
		{0, 3, 1, 4, 1, 4, 600},
		{1, 2, 2, 5, 1, 2, 1100},
		{0, 1, 1, 3, 0, 0, 0},
		{3, 4, 20, 41, 1, 3, 1200},
		{0, 2, 1, 2, 5, 9, 1195},
		{1, 3, 2, 6, 0, 0, 0},
	}
	c10Hellos = []string{"small", "pad512", "mid", "big1", "pq", "huge"}
)

// c10Flights: declarative flights in offsets from both ends (valid for streams of at least ~700 bytes).
func c10FlightPlans() [][][]c10Frame {
	return [][][]c10Frame{
		{{{K: "c", A: 0, B: 0}}},
		{{{K: "c", A: -100}, {K: "p"}}, {{K: "c", A: 0, B: -100}}},
		{{{K: "c", A: -365}, {K: "c", A: 0, B: 62}}, {{K: "c", A: 62, B: 200}}, {{K: "c", A: 262, B: -365}}},
		{{{K: "n", A: 20}, {K: "c", A: 300, B: 0}, {K: "p"}, {K: "n", A: 3}}, {{K: "c", A: 0, B: 300}, {K: "n", A: 100}}},
		{{{K: "c", A: -1}, {K: "c", A: 0, B: 1}}, {{K: "p"}, {K: "c", A: 1, B: -1}}},
	}
}

func c10RangePlans() [][][][2]int {
	return [][][][2]int{
		{{{0, 0}}},
		{{{-100, 0}}, {{0, -100}}},
		{{{-365, 0}, {0, 62}}, {{62, 200}}, {{262, -365}}},
		{{{300, 0}}, {{0, 300}}},
		{{{-1, 0}, {0, 1}}, {{1, -1}}},
	}
}

func c10Default(name string) c10Conf {
	return c10Conf{Name: name, DCID: 8, SCID: 3, Token: "none", Builder: "nil", Hello: "small"}
}

func c10Configs(l *evlog.Log) []c10Conf {
	var out []c10Conf
	add := func(c c10Conf) { out = append(out, c) }
	// ---- the built-in fingerprints, dead and live server
	for _, id := range quicworld.QUICIDNames {
		for rep := 0; rep < l.Pick(12, 300); rep++ {
			c := c10Default(fmt.Sprintf("quicid/%s/%d", id, rep))
			c.QUICID = id
			c.Live = rep%2 == 1
			add(c)
		}
	}
	// ---- one knob at a time around the default
	for _, v := range c10DCIDs {
		for _, live := range []bool{false, true} {
			c := c10Default(fmt.Sprintf("dcid/%d/live=%v", v, live))
			c.DCID, c.Live = v, live
			add(c)
		}
	}
	for _, v := range c10SCIDs {
		for _, live := range []bool{false, true} {
			c := c10Default(fmt.Sprintf("scid/%d/live=%v", v, live))
			c.SCID, c.Live = v, live
			add(c)
		}
	}
	for _, pn := range c10PNs {
		for li, lens := range c10PNLens {
			c := c10Default(fmt.Sprintf("pn/%d/lens%d", pn, li))
			c.InitPN, c.PNLens = pn, lens
			c.Live = li%2 == 0
			add(c)
		}
		for _, single := range []int{1, 2, 3, 4} {
			c := c10Default(fmt.Sprintf("pn/%d/single%d", pn, single))
			c.InitPN, c.PNLen = pn, single
			add(c)
			c.Name += "+list"
			c.PNLens = []int{4 - single + 1, 2}
			add(c)
		}
	}
	for _, tl := range []int{1, 16, 70, 300} {
		for _, kind := range []string{"store", "len", "userconf"} {
			for _, live := range []bool{false, true} {
				c := c10Default(fmt.Sprintf("token/%s/%d/live=%v", kind, tl, live))
				c.Token, c.TokLen, c.Live = kind, tl, live
				c.Both = tl == 70
				add(c)
			}
		}
		for _, pl := range []int{1, 4, 80} {
			c := c10Default(fmt.Sprintf("token/prefix/%d/%d", pl, tl))
			c.Token, c.TokLen, c.PrefLen = "prefix", tl, pl
			add(c)
		}
	}
	{
		c := c10Default("token/prefix-only/4")
		c.Token, c.PrefLen = "prefix", 4
		add(c)
		c = c10Default("token/storenil")
		c.Token = "storenil"
		add(c)
	}
	for _, h := range c10Hellos {
		for _, ips := range c10IPSs {
			for _, live := range []bool{false, true} {
				c := c10Default(fmt.Sprintf("hello/%s/ips%d/live=%v", h, ips, live))
				c.Hello, c.IPS, c.Live = h, ips, live
				add(c)
			}
		}
		for _, u := range c10UDPs {
			c := c10Default(fmt.Sprintf("hello/%s/udp%d", h, u))
			c.Hello, c.UDPMin = h, u
			add(c)
		}
		for pi, p := range c10Plans {
			for _, b := range []string{"nil", "empty"} {
				c := c10Default(fmt.Sprintf("hello/%s/plan%d/%s", h, pi, b))
				c.Hello, c.Plans, c.Builder = h, p, b
				c.Live = pi%2 == 0
				add(c)
			}
		}
	}
	for _, h := range []string{"small", "mid", "big1"} {
		for li, lay := range c10Layouts {
			for _, b := range []string{"frames", "custom"} {
				c := c10Default(fmt.Sprintf("layout/%s/%d/%s", h, li, b))
				c.Hello, c.Builder, c.Frames = h, b, [][]c10Frame{lay}
				c.Live = li%2 == 0
				add(c)
			}
		}
	}
	for _, h := range []string{"mid", "pq"} {
		for li, lay := range c10Layouts {
			for pi, p := range [][]c10Plan{{{150, 0}}, {{100, 1200}, {0, 1250}}, {{0, 1250}}} {
				c := c10Default(fmt.Sprintf("layout/%s/%d/plan%d", h, li, pi))
				c.Hello, c.Builder, c.Frames, c.Plans = h, "frames", [][]c10Frame{lay}, p
				add(c)
			}
		}
	}
	for _, h := range c10Hellos {
		for ri, rd := range c10Rands {
			for _, live := range []bool{false, true} {
				c := c10Default(fmt.Sprintf("random/%s/%d/live=%v", h, ri, live))
				c.Hello, c.Builder, c.Rand, c.Live = h, "random", []c10Rand{rd}, live
				add(c)
			}
			c := c10Default(fmt.Sprintf("multi/%s/%d", h, ri))
			c.Hello, c.Builder, c.Rand = h, "multi", []c10Rand{rd, c10Rands[(ri+3)%len(c10Rands)], c10Rands[(ri+5)%len(c10Rands)]}
			add(c)
			for pi, p := range [][]c10Plan{{{0, 1250}}, {{600, 1232}, {0, 1232}}, {{999, 1200}, {0, 1200}}} {
				c := c10Default(fmt.Sprintf("random/%s/%d/plan%d", h, ri, pi))
				c.Hello, c.Builder, c.Rand, c.Plans = h, "random", []c10Rand{rd}, p
				add(c)
			}
		}
	}
	for _, h := range []string{"mid", "big1", "pq", "huge"} {
		for fi, f := range c10FlightPlans() {
			for _, live := range []bool{false, true} {
				c := c10Default(fmt.Sprintf("flight/%s/%d/live=%v", h, fi, live))
				c.Hello, c.Builder, c.Frames, c.Live = h, "flight", f, live
				add(c)
			}
			c := c10Default(fmt.Sprintf("flight/%s/%d/plan", h, fi))
			c.Hello, c.Builder, c.Frames, c.Plans = h, "flight", f, []c10Plan{{0, 1250}, {0, 1200}}
			add(c)
		}
		for fi, rs := range c10RangePlans() {
			for ri, rd := range []c10Rand{{0, 0, 0, 0, 0, 0, 0}, {1, 3, 3, 5, 0, 0, 0}, {0, 2, 1, 4, 1, 3, 1100}, {2, 3, 2, 3, 2, 4, 1215}} {
				c := c10Default(fmt.Sprintf("randflight/%s/%d/%d", h, fi, ri))
				c.Hello, c.Builder, c.Ranges, c.Rand = h, "randflight", rs, []c10Rand{rd}
				c.Live = (fi+ri)%2 == 0
				add(c)
			}
		}
	}
	{
		// plans that cannot be sent: refused before anything is on the wire
		c := c10Default("flight/non-covering")
		c.Hello, c.Builder, c.Frames = "mid", "flight", [][]c10Frame{{{K: "c", A: 0, B: 100}}, {{K: "c", A: 101, B: 0}}}
		add(c)
		c = c10Default("randflight/out-of-bounds")
		c.Hello, c.Builder, c.Ranges, c.Rand = "mid", "randflight", [][][2]int{{{0, 5000}}}, []c10Rand{{0, 0, 1, 1, 0, 0, 0}}
		add(c)
	}
	// ---- seeded product
	rng := l.Rand("c10product")
	pick := func(n int) int { return rng.IntN(n) }
	for i := 0; i < l.Pick(8000, 300000); i++ {
		c := c10Default(fmt.Sprintf("product/%05d", i))
		c.DCID, c.SCID = c10DCIDs[pick(len(c10DCIDs))], c10SCIDs[pick(len(c10SCIDs))]
		if pick(3) > 0 {
			c.DCID = []int{8, 8, 9, 15, 20, 0}[pick(6)]
		}
		c.InitPN = c10PNs[pick(len(c10PNs))]
		if pick(2) == 0 {
			c.InitPN = uint64(pick(300))
		}
		c.PNLens = c10PNLens[pick(len(c10PNLens))]
		if pick(4) == 0 {
			c.PNLen = 1 + pick(4)
		}
		switch pick(8) {
		case 0:
			c.Token, c.TokLen = "store", []int{1, 16, 70, 300}[pick(4)]
		case 1:
			c.Token, c.TokLen = "len", []int{1, 16, 70, 300}[pick(4)]
		case 2:
			c.Token, c.TokLen, c.PrefLen = "prefix", []int{0, 16, 70}[pick(3)], []int{1, 4, 80}[pick(3)]
		case 3:
			c.Token, c.TokLen = "userconf", 16
		}
		c.Hello = c10Hellos[pick(len(c10Hellos))]
		c.IPS = c10IPSs[pick(len(c10IPSs))]
		c.UDPMin = c10UDPs[pick(len(c10UDPs))]
		c.Plans = c10Plans[pick(len(c10Plans))]
		if pick(2) == 0 {
			c.Plans = nil
		}
		switch pick(8) {
		case 0:
			c.Builder = "empty"
		case 1:
			c.Builder, c.Frames = "frames", [][]c10Frame{c10Layouts[pick(len(c10Layouts))]}
		case 2, 3:
			c.Builder, c.Rand = "random", []c10Rand{c10Rands[pick(len(c10Rands))]}
		case 4:
			c.Builder, c.Rand = "multi", []c10Rand{c10Rands[pick(len(c10Rands))], c10Rands[pick(len(c10Rands))]}
		case 5:
			if c.Hello != "small" && c.Hello != "pad512" {
				fp := c10FlightPlans()
				c.Builder, c.Frames = "flight", fp[pick(len(fp))]
			}
		case 6:
			if c.Hello != "small" && c.Hello != "pad512" {
				rp := c10RangePlans()
				c.Builder, c.Ranges, c.Rand = "randflight", rp[pick(len(rp))], []c10Rand{c10Rands[pick(len(c10Rands))]}
			}
		}
		c.Live = pick(3) == 0
		add(c)
	}
	kept := out[:0]
	for _, c := range out {
		if c.framesSafe() && (c.QUICID != "" || c.flightDatagrams() <= 7) {
			kept = append(kept, c)
		}
	}
	out = kept
	// UDPDatagramMinSize above the packet buffer size: few cases, each in another shard (they may end the process)
	for i, u := range []int{1472, 1500, 1453}[:l.Pick(2, 3)] {
		c := c10Default(fmt.Sprintf("udp/%d", u))
		c.UDPMin = u
		at := min(len(out), 40+i*17)
		out = append(out[:at], append([]c10Conf{c}, out[at:]...)...)
	}
	for i := range out {
		out[i].Dials = l.Pick(3, 5)
		out[i].WaitMs = 30
		if i%3 == 0 {
			out[i].WaitMs = 450 // long enough for the first PTO retransmissions
		}
	}
	return out
}

func TestVerifC10Flight(t *testing.T) {
	l := evlog.Open("C10")
	defer l.Close()
	cases := c10Configs(l)
	for i := range cases {
		if !l.Mine(i) {
			continue
		}
		cf := cases[i]
		c := l.Begin("C10/"+cf.Name, cf)
		if c == nil {
			continue
		}
		c10RunCase(t, l, c, &cf)
		c.End()
	}
}

func c10RunCase(t *testing.T, l *evlog.Log, c *evlog.Case, cf *c10Conf) {
	synctest.Test(t, func(t *testing.T) {
		spec, conf, store, err := c10Spec(cf)
		if err != nil {
			c.Violation("C10|harness|spec", err.Error(), nil)
			return
		}
		if cf.QUICID != "" {
			if err := c10FromSpec(cf, spec); err != nil {
				c.Violation("C10|harness|spec", err.Error(), nil)
				return
			}
		}
		cp, err := specgen.NewCapturer(quicworld.Options{ClientKind: "spec", Spec: spec, ClientConf: conf, NoServer: !cf.Live,
			ServerConf: &quic.Config{MaxIdleTimeout: 20 * time.Second}})
		if err != nil {
			c.Violation("C10|harness|world", err.Error(), nil)
			return
		}
		var tokens, dcids [][]byte
		for dial := 0; dial < cf.Dials; dial++ {
			window := time.Duration(cf.WaitMs) * time.Millisecond
			if cf.Live {
				window = 2 * time.Second
			}
			if store != nil {
				store.TakePops()
			}
			dc := cp.Dial(window, 50*time.Millisecond)
			rep := &c10Report{cf: cf, counts: map[string]int64{}}
			tok, dcid, fp := c10Check(rep, cf, &dc, store, tokens, dcids)
			tokens, dcids = append(tokens, tok), append(dcids, dcid)
			c.Eval(fp)
			for k, v := range rep.counts {
				l.Count(k, v)
			}
			l.Count("builder_"+cf.Builder, 1)
			if cf.Live {
				l.Count("dials_live_server", 1)
			} else {
				l.Count("dials_dead_server", 1)
			}
			for _, v := range rep.viols {
				c.Violation(v.sig, fmt.Sprintf("dial %d: %s", dial+1, v.detail), c10Trace(cf, &dc))
			}
		}
		cp.Close()
		c.Sample(cf.Builder, map[string]any{"case": cf.Name, "dials": cf.Dials})
	})
}

func c10Trace(cf *c10Conf, dc *specgen.DialCapture) map[string]any {
	var lines []string
	for i, raw := range dc.Dgrams {
		if i >= 12 {
			break
		}
		d := specgen.Decode(raw, nil, -1, -1)
		s := fmt.Sprintf("t=%v len=%d trailing=%d", dc.Times[i], len(raw), d.Trailing)
		for _, p := range d.Pkts {
			s += fmt.Sprintf(" | %v dcid=%x scid=%x token=%d opened=%v pn(plain)=%d/%d payload=%d %s", p.Kind, p.DCID, p.SCID, len(p.Token), p.Opened, p.PN, p.PNLen, len(p.Payload), c10Short(p.Layout()))
		}
		lines = append(lines, s)
	}
	return map[string]any{"dial_error": fmt.Sprint(dc.Err), "datagrams": lines, "first_flight": dc.PreServer}
}
