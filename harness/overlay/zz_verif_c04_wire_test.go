package quic_test

// C04 wire layer: the independent wire observer checks every decrypted packet of real
// connections under fault schedules (see internal/verif/wiretap/tap.go for the oracle).

import (
	"fmt"
	"testing"

	"github.com/refraction-networking/uquic/internal/verif/evlog"
	"github.com/refraction-networking/uquic/internal/verif/quicworld"
	"github.com/refraction-networking/uquic/internal/verif/simworld"
	"github.com/refraction-networking/uquic/internal/verif/wiretap"
)

func TestVerifC04Wire(t *testing.T) {
	l := evlog.Open("C04")
	defer l.Close()
	clients := []quicworld.ClientSel{{Client: "plain"}, {Client: "plain", V2: true}, {Client: "unil"}, {Client: "Chrome_115_IPv4"}, {Client: "Firefox_116A"}}
	var cases []*quicworld.ConnCase
	if l.Quick() {
		cases = quicworld.FaultSuite(l, clients, []string{"S2"}, 3, 250, 100, 150)
	} else {
		cases = quicworld.FaultSuite(l, clients, []string{"S2", "S4"}, 8, 4000, 3000, 3000)
	}
	// a client whose three per-stream-type windows differ (48 kB for streams it opens, 6 kB for streams the
	// server opens, 9 kB for unidirectional ones): streams of every kind and initiator that need far more
	// than the smallest of them, fault-free and with a drop on each of the first datagrams
	asym := quicworld.TransferSpec{Streams: []quicworld.StreamSpec{
		{Bytes: 30000, Reply: 60000}, {Bytes: 500, Reply: 40000, FromServer: true}, {Bytes: 40000, Reply: 500, FromServer: true},
		{Uni: true, Bytes: 30000, FromServer: true}, {Uni: true, Bytes: 30000}}}
	for _, cl := range []string{"Firefox_116A~asym", "Chrome_115_IPv4~asym"} {
		mk := func(name string, fs []simworld.Fault) {
			ts := asym
			ts.ChunkSeed = uint64(len(cases))
			cases = append(cases, &quicworld.ConnCase{Name: "asym/" + cl + "/" + name, Client: cl, Schedule: simworld.Schedule{Faults: fs}, Transfer: ts, ConnIdx: len(cases), RTTms: 10})
		}
		mk("clean", nil)
		for d := 0; d < 2; d++ {
			for o := 0; o < l.Pick(6, 30); o++ {
				mk(fmt.Sprintf("d%d-o%d-drop", d, o), []simworld.Fault{{Dir: wiretap.Dir(d), Ordinal: o, Action: simworld.Action{Kind: "drop"}}})
			}
		}
	}
	quicworld.RunSuite(t, l, cases, quicworld.WireReporter(l, "C04"))
}
