package quic_test

// C11 — ClientHello and transport parameters on the wire are exactly what the spec says.
//
//   Wire          dials with generated transport parameter lists / suppression sets / randomisation and with
//                 the built-in fingerprints; the reassembled ClientHello is compared with the spec and with
//                 what uTLS itself produces for a copy of the ClientHelloSpec.
//   Helpers       SuppressQUICTransportParameters, ShuffleQUICTransportParameters, IsGREASEQTPID and
//                 QUICSpec.TransportParameterIDs against a list model.
//   Distribution  permutations of lists of 2, 3 and 4 parameters: all n! reachable, position counts in a band.
//   Fingerprint   the reference fingerprinter's identifier over many dials of each built-in QUICID.

import (
	"bytes"
	"encoding/binary"
	"fmt"
	"math"
	"slices"
	"sort"
	"strings"
	"testing"
	"testing/synctest"
	"time"

	"github.com/refraction-networking/clienthellod"
	quic "github.com/refraction-networking/uquic"
	"github.com/refraction-networking/uquic/internal/verif/evlog"
	"github.com/refraction-networking/uquic/internal/verif/quicworld"
	"github.com/refraction-networking/uquic/internal/verif/simworld"
	"github.com/refraction-networking/uquic/internal/verif/specgen"
	"github.com/refraction-networking/uquic/internal/verif/wiretap"
	tls "github.com/refraction-networking/utls"
)

type c11Case struct {
	Name      string          `json:"name"`
	QUICID    string          `json:"quicid,omitempty"`
	Hello     string          `json:"hello,omitempty"`
	List      []specgen.Param `json:"list,omitempty"`
	Suppress  []uint64        `json:"suppress,omitempty"`
	Randomize bool            `json:"randomize,omitempty"`
	SCID      int             `json:"scid"`
	IDsFirst  bool            `json:"ids_first,omitempty"` // call TransportParameterIDs() before the first dial
	Measured  bool            `json:"measured,omitempty"`  // the application measures / serialises the spec's own transport parameters extension before the first dial (as when sizing a ClientHello or using the spec with plain uTLS)
	Dials     int             `json:"dials"`
}

type c11Pair struct {
	ID  uint64
	Val []byte
	Obj tls.TransportParameter
}

// c11ValueEqual compares a wire value with a spec value modulo what is drawn per connection.
func c11ValueEqual(id uint64, wire, spec []byte, scid []byte, obj tls.TransportParameter) bool {
	switch o := obj.(type) {
	case tls.InitialSourceConnectionID:
		if len(o) == 0 {
			return bytes.Equal(wire, scid) // "if empty, will be set to the Connection ID used for the Initial packet"
		}
	case *tls.VersionInformation:
		// chosen version, then the available versions; a VERSION_GREASE entry is drawn per serialisation
		// (uTLS: random | 0x0a0a0a0a)
		if len(wire) != 4+4*len(o.AvailableVersions) {
			return false
		}
		if binary.BigEndian.Uint32(wire) != o.ChoosenVersion {
			return false
		}
		for i, v := range o.AvailableVersions {
			w := binary.BigEndian.Uint32(wire[4+4*i:])
			if v == tls.VERSION_GREASE {
				if w|0x0a0a0a0a != w {
					return false
				}
			} else if w != v {
				return false
			}
		}
		return true
	}
	return bytes.Equal(wire, spec)
}

func c11Pairs(l tls.TransportParameters) []c11Pair {
	out := make([]c11Pair, len(l))
	for i, p := range l {
		out[i] = c11Pair{p.ID(), append([]byte(nil), p.Value()...), p}
	}
	return out
}

func c11IDs(p []c11Pair) []uint64 {
	out := make([]uint64, len(p))
	for i := range p {
		out[i] = p[i].ID
	}
	return out
}

func c11WireIDs(tp []wiretap.TransportParameter) []uint64 {
	out := make([]uint64, len(tp))
	for i := range tp {
		out[i] = tp[i].ID
	}
	return out
}

// c11Canon16 folds TLS GREASE code points (0x?a?a) to 0x0a0a.
func c11Canon16(v uint16) uint16 {
	if v&0x0f0f == 0x0a0a && v>>8 == v&0xff {
		return 0x0a0a
	}
	return v
}

func c11U16List(d []byte) []uint16 {
	var out []uint16
	for i := 0; i+1 < len(d); i += 2 {
		out = append(out, c11Canon16(binary.BigEndian.Uint16(d[i:])))
	}
	return out
}

// c11KeyShares returns (group, key length) pairs of a key_share extension body.
func c11KeyShares(d []byte) (out [][2]int, ok bool) {
	if len(d) < 2 || int(binary.BigEndian.Uint16(d)) != len(d)-2 {
		return nil, false
	}
	d = d[2:]
	for len(d) >= 4 {
		g, n := c11Canon16(binary.BigEndian.Uint16(d)), int(binary.BigEndian.Uint16(d[2:]))
		if len(d) < 4+n {
			return nil, false
		}
		out = append(out, [2]int{int(g), n})
		d = d[4+n:]
	}
	return out, len(d) == 0
}

// c11CompareHello compares the wire ClientHello with the one uTLS produced for a copy of the spec.
// Only per-connection random material is masked.  It returns a list of differences.
func c11CompareHello(wire, ref *wiretap.ClientHello, scid []byte, refObjs map[uint64][]tls.TransportParameter) []string {
	var diff []string
	add := func(f string, a ...any) { diff = append(diff, fmt.Sprintf(f, a...)) }
	if wire.Version != ref.Version {
		add("legacy_version %#x / %#x", wire.Version, ref.Version)
	}
	if len(wire.SessionID) != len(ref.SessionID) {
		add("session id length %d / %d", len(wire.SessionID), len(ref.SessionID))
	}
	cs := func(l []uint16) []uint16 {
		o := make([]uint16, len(l))
		for i, v := range l {
			o[i] = c11Canon16(v)
		}
		return o
	}
	if !slices.Equal(cs(wire.CipherSuites), cs(ref.CipherSuites)) {
		add("cipher suites %x / %x", wire.CipherSuites, ref.CipherSuites)
	}
	if !bytes.Equal(wire.Compression, ref.Compression) {
		add("compression methods %x / %x", wire.Compression, ref.Compression)
	}
	types := func(c *wiretap.ClientHello) []uint16 {
		var o []uint16
		for _, e := range c.Extensions {
			o = append(o, c11Canon16(e.Type))
		}
		return o
	}
	if !slices.Equal(types(wire), types(ref)) {
		add("extension order %x / %x", types(wire), types(ref))
		return diff
	}
	for i, e := range wire.Extensions {
		r := ref.Extensions[i]
		switch c11Canon16(e.Type) {
		case wiretap.ExtKeyShare:
			a, ok1 := c11KeyShares(e.Data)
			b, ok2 := c11KeyShares(r.Data)
			if !ok1 || !ok2 || !slices.Equal(a, b) {
				add("key_share (group, key length) %v / %v", a, b)
			}
		case wiretap.ExtECH:
			// GREASE ECH: type, KDF, AEAD fixed; config id, enc and payload are random; lengths must agree
			if len(e.Data) != len(r.Data) || len(e.Data) < 10 || e.Data[0] != r.Data[0] || !bytes.Equal(e.Data[1:5], r.Data[1:5]) || !bytes.Equal(e.Data[6:8], r.Data[6:8]) {
				add("encrypted_client_hello structure: %d bytes %x / %d bytes %x", len(e.Data), e.Data[:min(8, len(e.Data))], len(r.Data), r.Data[:min(8, len(r.Data))])
			}
		case wiretap.ExtPadding:
			if len(e.Data) != len(r.Data) || len(bytes.Trim(e.Data, "\x00")) != 0 {
				add("padding %d bytes / %d bytes", len(e.Data), len(r.Data))
			}
		case 0x0a0a:
			if len(e.Data) != len(r.Data) {
				add("GREASE extension %d / %d bytes", len(e.Data), len(r.Data))
			}
		case 10, 43: // supported_groups, supported_versions: GREASE values are drawn per connection
			skip := 2 // supported_groups: uint16 length
			if e.Type == 43 {
				skip = 1 // supported_versions: uint8 length
			}
			if len(e.Data) != len(r.Data) || len(e.Data) < skip || !slices.Equal(c11U16List(e.Data[skip:]), c11U16List(r.Data[skip:])) {
				add("extension %d: %x / %x", e.Type, e.Data, r.Data)
			}
		case wiretap.ExtQUICTransportParams:
			a, err1 := wiretap.ParseTransportParameters(e.Data)
			b, err2 := wiretap.ParseTransportParameters(r.Data)
			if err1 != nil || err2 != nil || len(a) != len(b) {
				add("quic_transport_parameters %x / %x", e.Data, r.Data)
				break
			}
			nth := map[uint64]int{}
			for k := range a {
				var obj tls.TransportParameter
				if l := refObjs[b[k].ID]; len(l) > nth[b[k].ID] {
					obj = l[nth[b[k].ID]] // the reference list is in wire order: same occurrence
				}
				nth[b[k].ID]++
				if a[k].ID != b[k].ID || !c11ValueEqual(a[k].ID, a[k].Value, b[k].Value, scid, obj) {
					add("transport parameter %d: %#x=%x / %#x=%x", k, a[k].ID, a[k].Value, b[k].ID, b[k].Value)
				}
			}
		default:
			if !bytes.Equal(e.Data, r.Data) {
				add("extension %d: %x / %x", e.Type, e.Data, r.Data)
			}
		}
	}
	return diff
}

// c11Reference builds a copy of chs for the reference run: shared extension objects, except the two that hold
// per-connection state; the transport parameter list is the wire's own order of the spec's objects.
func c11Reference(chs *tls.ClientHelloSpec, qtp tls.TransportParameters) *tls.ClientHelloSpec {
	c := *chs
	c.Extensions = make([]tls.TLSExtension, len(chs.Extensions))
	for i, ext := range chs.Extensions {
		switch ext := ext.(type) {
		case *tls.KeyShareExtension:
			ks := make([]tls.KeyShare, len(ext.KeyShares))
			for j, k := range ext.KeyShares {
				ks[j] = tls.KeyShare{Group: k.Group}
			}
			c.Extensions[i] = &tls.KeyShareExtension{KeyShares: ks}
		case *tls.QUICTransportParametersExtension:
			c.Extensions[i] = &tls.QUICTransportParametersExtension{TransportParameters: qtp}
		case *tls.SNIExtension:
			// every spec of this job leaves the server name to the dial: the reference gets a pristine
			// extension (uTLS writes the name into the object it is given)
			c.Extensions[i] = &tls.SNIExtension{}
		default:
			c.Extensions[i] = ext
		}
	}
	return &c
}

type c11Rep struct {
	c     *evlog.Case
	l     *evlog.Log
	cls   string
	trace func() any
	seen  map[string]bool
}

func (r *c11Rep) bad(sig, f string, a ...any) {
	if r.seen[sig] {
		return
	}
	r.seen[sig] = true
	r.c.Violation(sig, fmt.Sprintf(f, a...), r.trace())
}

// c11CheckDial compares one dial's wire ClientHello with the spec.  orig is the spec's transport
// parameter list as it was built (objects), before anything touched it.
func c11CheckDial(r *c11Rep, cs *c11Case, spec *quic.QUICSpec, orig tls.TransportParameters, w *specgen.WireHello, dial int) (order string) {
	l := r.l
	cls := r.cls
	if w.TP == nil {
		r.bad("C11|wire|no-transport-parameters-extension|"+cls, "dial %d: the ClientHello has no quic_transport_parameters extension", dial)
		return ""
	}
	if w.TPErr != nil {
		r.bad("C11|wire|transport-parameters-malformed|"+cls, "dial %d: %v", dial, w.TPErr)
		return ""
	}
	// ---- expected list: the spec's list after suppression (IDs incl. GREASE, values, order)
	pairs := c11Pairs(orig) // GREASE IDs and values are memoised in the shared objects: these are the dialled ones
	kept := specgen.SuppressModel(c11IDs(pairs), spec.SuppressTransportParameters)
	var want []c11Pair
	for _, i := range kept {
		want = append(want, pairs[i])
	}
	l.Count("wire_transport_parameters", int64(len(w.TP)))
	l.Count("suppressed_parameters", int64(len(pairs)-len(want)))
	got := w.TP
	match := make([]int, len(got)) // index into want
	if len(got) != len(want) {
		r.bad("C11|qtp|parameter-count|"+cls, "dial %d: %d parameters on the wire %x, the spec has %d after suppression %x (suppress %v)", dial, len(got), c11WireIDs(got), len(want), c11IDs(want), spec.SuppressTransportParameters)
		return ""
	}
	if !spec.RandomizeTransportParameters {
		for i := range got {
			match[i] = i
			if got[i].ID != want[i].ID {
				r.bad("C11|qtp|order-or-id|"+cls, "dial %d: wire IDs %x, spec order after suppression %x", dial, c11WireIDs(got), c11IDs(want))
				return ""
			}
		}
	} else {
		used := make([]bool, len(want))
		for i := range got {
			match[i] = -1
			for j := range want {
				if !used[j] && want[j].ID == got[i].ID && c11ValueEqual(got[i].ID, got[i].Value, want[j].Val, w.SCID, want[j].Obj) {
					used[j], match[i] = true, j
					break
				}
			}
			if match[i] < 0 {
				r.bad("C11|qtp|not-a-permutation-of-the-spec|"+cls, "dial %d: wire parameter %#x=%x has no counterpart; wire IDs %x, spec %x", dial, got[i].ID, got[i].Value, c11WireIDs(got), c11IDs(want))
				return ""
			}
		}
	}
	for i := range got {
		p := want[match[i]]
		if !c11ValueEqual(got[i].ID, got[i].Value, p.Val, w.SCID, p.Obj) {
			r.bad("C11|qtp|value|"+cls, "dial %d: parameter %#x is %x on the wire, %x in the spec (SCID %x)", dial, got[i].ID, got[i].Value, p.Val, w.SCID)
		}
		l.Count("parameter_values_compared", 1)
		order += fmt.Sprintf("%d,", match[i])
	}

	// ---- a fingerprinter canonicalising the wire (own folding, and clienthellod's)
	canon := specgen.Canonical(c11WireIDs(got))
	if ids := spec.TransportParameterIDs(); !slices.Equal(ids, canon) && !(len(ids) == 0 && len(canon) == 0) {
		r.bad("C11|ids|TransportParameterIDs-differs-from-canonical-wire|"+cls, "dial %d: TransportParameterIDs() = %v, canonicalised wire IDs %v", dial, ids, canon)
	}
	l.Count("TransportParameterIDs_compared", 1)
	if d, ok := w.CH.Ext(wiretap.ExtQUICTransportParams); ok {
		if q := clienthellod.ParseQUICTransportParameters(d); q.ParseError() == nil {
			if !slices.Equal(q.QTPIDs, canon) && !(len(q.QTPIDs) == 0 && len(canon) == 0) {
				r.bad("C11|ids|reference-fingerprinter-sees-other-ids|"+cls, "dial %d: clienthellod %v, observer %v", dial, q.QTPIDs, canon)
			}
			l.Count("clienthellod_id_lists_compared", 1)
		} else if len(got) > 0 {
			l.Count("clienthellod_parse_errors", 1)
		}
	}

	// ---- cipher suites straight from the spec
	wantCS := make([]uint16, len(spec.ClientHelloSpec.CipherSuites))
	for i, v := range spec.ClientHelloSpec.CipherSuites {
		wantCS[i] = c11Canon16(v)
	}
	gotCS := make([]uint16, len(w.CH.CipherSuites))
	for i, v := range w.CH.CipherSuites {
		gotCS[i] = c11Canon16(v)
	}
	if !slices.Equal(gotCS, wantCS) {
		r.bad("C11|hello|cipher-suites|"+cls, "dial %d: wire %x, spec %x", dial, w.CH.CipherSuites, spec.ClientHelloSpec.CipherSuites)
	}

	// ---- what uTLS produces for a copy of the spec (transport parameters in the order the wire chose)
	refList := make(tls.TransportParameters, len(got))
	refObjs := map[uint64][]tls.TransportParameter{}
	for i := range got {
		p := want[match[i]].Obj
		if o, ok := p.(tls.InitialSourceConnectionID); ok && len(o) == 0 {
			p = tls.InitialSourceConnectionID(w.SCID)
		}
		refList[i] = p
		refObjs[got[i].ID] = append(refObjs[got[i].ID], want[match[i]].Obj)
	}
	refRaw, err := specgen.ReferenceHello(c11Reference(spec.ClientHelloSpec, refList), c11DialName(dial), []string{"verif"})
	if err != nil {
		r.bad("C11|harness|reference-hello|"+cls, "uTLS could not build the reference: %v", err)
		return order
	}
	ref, err := wiretap.ParseClientHello(refRaw)
	if err != nil {
		r.bad("C11|harness|reference-hello|"+cls, "reference does not parse: %v", err)
		return order
	}
	l.Count("hellos_compared_with_uTLS", 1)
	l.Count("extensions_compared", int64(len(ref.Extensions)))
	if diff := c11CompareHello(w.CH, ref, w.SCID, refObjs); len(diff) > 0 {
		what := "extension-contents"
		if strings.HasPrefix(diff[0], "extension order") {
			what = "extension-order"
		} else if strings.HasPrefix(diff[0], "cipher") {
			what = "cipher-suites"
		}
		r.bad("C11|hello|differs-from-uTLS|"+what+"|"+cls, "dial %d (wire / uTLS reference): %s", dial, strings.Join(diff[:min(len(diff), 6)], "; "))
	}
	if len(w.Raw) != len(refRaw) {
		r.bad("C11|hello|differs-from-uTLS|length|"+cls, "dial %d: wire ClientHello %d bytes, uTLS reference %d bytes", dial, len(w.Raw), len(refRaw))
	}
	return order
}

func c11Spec(cs *c11Case) (*quic.QUICSpec, tls.TransportParameters, error) {
	if cs.QUICID != "" {
		spec, err := quic.QUICID2Spec(quicworld.QUICIDs[cs.QUICID])
		if err != nil {
			return nil, nil, err
		}
		spec.SuppressTransportParameters = cs.Suppress
		spec.RandomizeTransportParameters = cs.Randomize
		q := specgen.QTPExt(spec.ClientHelloSpec)
		if q == nil {
			return nil, nil, fmt.Errorf("built-in spec without transport parameters")
		}
		return &spec, slices.Clone(q.TransportParameters), nil
	}
	list := specgen.BuildList(cs.List)
	spec := &quic.QUICSpec{
		InitialPacketSpec:            quic.InitialPacketSpec{DestConnIDLength: 8, SrcConnIDLength: cs.SCID},
		ClientHelloSpec:              specgen.HelloSpec(cs.Hello, slices.Clone(list)),
		SuppressTransportParameters:  cs.Suppress,
		RandomizeTransportParameters: cs.Randomize,
	}
	return spec, list, nil
}

func c11Cases(l *evlog.Log) []c11Case {
	var out []c11Case
	rng := l.Rand("c11wire")
	dials := l.Pick(3, 4)
	for _, id := range quicworld.QUICIDNames {
		for v := 0; v < l.Pick(12, 40); v++ {
			c := c11Case{Name: fmt.Sprintf("quicid/%s/%d", id, v), QUICID: id, Dials: dials, IDsFirst: v%2 == 1, Randomize: v%3 == 2, Measured: v%4 == 3}
			switch v % 6 {
			case 1:
				c.Suppress = []uint64{27}
			case 2:
				c.Suppress = []uint64{0x20, 0x3128, 0x99}
			case 3:
				c.Suppress = []uint64{0xff73db, 27, 1}
			case 5:
				c.Suppress = []uint64{0x0f}
			}
			out = append(out, c)
		}
	}
	hellos := []string{"small", "pad512", "mid", "pq"}
	for i := 0; i < l.Pick(5000, 160000); i++ {
		list := specgen.GenList(rng, 14)
		c := c11Case{Name: fmt.Sprintf("gen/%05d", i), Hello: hellos[rng.IntN(len(hellos))], List: list, Suppress: specgen.GenSuppress(rng, list),
			Randomize: rng.IntN(2) == 0, SCID: []int{0, 3, 8, 20}[rng.IntN(4)], IDsFirst: rng.IntN(2) == 0, Measured: rng.IntN(3) == 0, Dials: dials}
		out = append(out, c)
	}
	// a standard parameter written as a raw (fake) parameter, e.g. to pin a non-minimal encoding
	out = append(out, c11Case{Name: "raw/max_idle_timeout", Hello: "small", List: []specgen.Param{{K: "fake", ID: 1, N: 2}, {K: "iscid"}}, Dials: dials, SCID: 3})
	return out
}

func TestVerifC11Wire(t *testing.T) {
	l := evlog.Open("C11")
	defer l.Close()
	for i, cs := range c11Cases(l) {
		if !l.Mine(i) {
			continue
		}
		c := l.Begin("C11/"+cs.Name, cs)
		if c == nil {
			continue
		}
		synctest.Test(t, func(t *testing.T) {
			spec, orig, err := c11Spec(&cs)
			if err != nil {
				c.Violation("C11|harness|spec", err.Error(), nil)
				return
			}
			cls := "generated"
			if cs.QUICID != "" {
				cls = "quicid=" + cs.QUICID
			}
			if cs.Measured && spec.ClientHelloSpec != nil {
				for _, ext := range spec.ClientHelloSpec.Extensions {
					if q, ok := ext.(*tls.QUICTransportParametersExtension); ok {
						buf := make([]byte, q.Len())
						q.Read(buf)
						l.Count("specs_measured_before_dial", 1)
					}
				}
			}
			var idsFirst []uint64
			if cs.IDsFirst {
				idsFirst = spec.TransportParameterIDs()
			}
			cp, err := specgen.NewCapturer(quicworld.Options{ClientKind: "spec", Spec: spec, NoServer: true})
			if err != nil {
				c.Violation("C11|harness|world", err.Error(), nil)
				return
			}
			orders := map[string]bool{}
			var lastIDs []uint64
			for dial := 1; dial <= cs.Dials; dial++ {
				dc := cp.DialName(c11DialName(dial), 5*time.Millisecond, 20*time.Millisecond)
				l.Count("dials", 1)
				var w *specgen.WireHello
				rep := &c11Rep{c: c, l: l, cls: cls, seen: map[string]bool{}, trace: func() any {
					m := map[string]any{"dial_error": fmt.Sprint(dc.Err), "datagrams": len(dc.Dgrams)}
					if w != nil {
						m["client_hello"] = fmt.Sprintf("%x", w.Raw)
						m["scid"] = fmt.Sprintf("%x", w.SCID)
					}
					return m
				}}
				w, err = specgen.ReadHello(dc.Dgrams)
				if err != nil {
					c.Eval("")
					rep.bad("C11|wire|no-client-hello|"+cls, "dial %d: %v (dial error %v)", dial, err, dc.Err)
					continue
				}
				order := c11CheckDial(rep, &cs, spec, orig, w, dial)
				orders[order] = true
				lastIDs = specgen.Canonical(c11WireIDs(w.TP))
				c.Eval(fmt.Sprintf("%s|n=%d|sup=%d|rand=%v|grease=%v|dial=%d", cs.Name, len(w.TP), len(cs.Suppress), cs.Randomize, slices.Contains(lastIDs, 27), min(dial, 2)))
			}
			if cs.IDsFirst && lastIDs != nil && !slices.Equal(idsFirst, lastIDs) && !(len(idsFirst) == 0 && len(lastIDs) == 0) {
				c.Violation("C11|ids|TransportParameterIDs-before-dial-differs-from-wire|"+cls, fmt.Sprintf("TransportParameterIDs() before the first dial = %v, canonicalised wire IDs of the dials %v", idsFirst, lastIDs), nil)
			}
			if !cs.Randomize && len(orders) > 1 {
				c.Violation("C11|qtp|order-changes-between-dials-without-randomisation|"+cls, fmt.Sprintf("orders seen: %v", orders), nil)
			}
			if cs.Randomize {
				l.Count("randomised_dial_series", 1)
				if len(orders) > 1 {
					l.Count("randomised_dial_series_with_different_orders", 1)
				}
			}
			cp.Close()
		})
		c.End()
	}
}

// ------------------------------------------------------------------------------------------------
// helper functions against the list model

func TestVerifC11Helpers(t *testing.T) {
	l := evlog.Open("C11")
	defer l.Close()
	rng := l.Rand("c11helpers")
	batches := l.Pick(40, 1600)
	for b := 0; b < batches; b++ {
		if !l.Mine(b) {
			continue
		}
		type item struct {
			List     []specgen.Param `json:"list"`
			Suppress []uint64        `json:"suppress"`
		}
		var items []item
		for i := 0; i < 500; i++ {
			list := specgen.GenList(rng, 16)
			items = append(items, item{list, specgen.GenSuppress(rng, list)})
		}
		c := l.Begin(fmt.Sprintf("C11/helpers/%04d", b), map[string]any{"batch": b, "items": len(items)})
		if c == nil {
			continue
		}
		seen := map[string]bool{}
		bad := func(sig, detail string, it item) {
			if !seen[sig] {
				seen[sig] = true
				c.Violation(sig, detail, it)
			}
		}
		for _, it := range items {
			objs := specgen.BuildList(it.List)
			before := c11Pairs(objs)
			ids := c11IDs(before)
			keptIdx := specgen.SuppressModel(ids, it.Suppress)
			var want tls.TransportParameters
			for _, i := range keptIdx {
				want = append(want, objs[i])
			}
			same := func(a, b tls.TransportParameters) bool {
				if len(a) != len(b) {
					return false
				}
				for i := range a {
					if a[i].ID() != b[i].ID() || !bytes.Equal(a[i].Value(), b[i].Value()) {
						if _, vi := a[i].(*tls.VersionInformation); !vi || a[i].ID() != b[i].ID() {
							return false
						}
					}
				}
				return true
			}
			// ---- suppression: exactly the listed IDs, every GREASE ID for 27, order kept, idempotent
			ext := &tls.QUICTransportParametersExtension{TransportParameters: slices.Clone(objs)}
			if ret := quic.SuppressQUICTransportParameters(ext, it.Suppress); ret != ext {
				bad("C11|suppress|does-not-return-its-argument", "returned another extension", it)
			}
			if !same(ext.TransportParameters, want) {
				bad("C11|suppress|result-differs-from-list-model", fmt.Sprintf("ids %x, suppress %v: kept %x, model %x", ids, it.Suppress, c11IDs(c11Pairs(ext.TransportParameters)), c11IDs(c11Pairs(want))), it)
			}
			quic.SuppressQUICTransportParameters(ext, it.Suppress)
			if !same(ext.TransportParameters, want) {
				bad("C11|suppress|not-idempotent", fmt.Sprintf("ids %x, suppress %v: second application left %x", ids, it.Suppress, c11IDs(c11Pairs(ext.TransportParameters))), it)
			}
			l.Count("suppress_calls", 2)
			l.Count("suppress_removed", int64(len(objs)-len(want)))
			// ---- shuffle: a permutation of the same objects
			sh := &tls.QUICTransportParametersExtension{TransportParameters: slices.Clone(objs)}
			if ret := quic.ShuffleQUICTransportParameters(sh); ret != sh {
				bad("C11|shuffle|does-not-return-its-argument", "returned another extension", it)
			}
			key := func(l tls.TransportParameters) []string {
				var o []string
				for _, p := range l {
					o = append(o, fmt.Sprintf("%T/%x/%x/%p", p, p.ID(), len(p.Value()), p))
				}
				sort.Strings(o)
				return o
			}
			if !slices.Equal(key(sh.TransportParameters), key(objs)) {
				bad("C11|shuffle|not-a-permutation", fmt.Sprintf("before %x after %x", ids, c11IDs(c11Pairs(sh.TransportParameters))), it)
			}
			l.Count("shuffle_calls", 1)
			// ---- TransportParameterIDs: canonicalised IDs of the suppressed list, duplicates kept, stable
			spec := &quic.QUICSpec{ClientHelloSpec: specgen.HelloSpec("small", slices.Clone(objs)), SuppressTransportParameters: it.Suppress}
			wantIDs := specgen.Canonical(c11IDs(c11Pairs(want)))
			got1 := spec.TransportParameterIDs()
			got2 := spec.TransportParameterIDs()
			if !slices.Equal(got1, wantIDs) && !(len(got1) == 0 && len(wantIDs) == 0) {
				bad("C11|ids|TransportParameterIDs-differs-from-list-model", fmt.Sprintf("ids %x, suppress %v: got %v, model %v", ids, it.Suppress, got1, wantIDs), it)
			}
			if !slices.Equal(got1, got2) {
				bad("C11|ids|TransportParameterIDs-not-stable", fmt.Sprintf("first %v second %v", got1, got2), it)
			}
			l.Count("TransportParameterIDs_calls", 2)
			fp := fmt.Sprintf("n=%d|kept=%d|sup=%d|grease=%v|dup=%v", min(len(objs), 8), min(len(want), 8), min(len(it.Suppress), 4), slices.Contains(specgen.Canonical(ids), 27), len(ids) != len(slices.Compact(slices.Sorted(slices.Values(ids)))))
			c.Eval(fp)
		}
		// ---- degenerate arguments
		if quic.SuppressQUICTransportParameters(nil, []uint64{1}) != nil {
			bad("C11|suppress|nil-extension", "nil extension did not come back as nil", item{})
		}
		if (&quic.QUICSpec{}).TransportParameterIDs() != nil || (&quic.QUICSpec{ClientHelloSpec: &tls.ClientHelloSpec{}}).TransportParameterIDs() != nil {
			bad("C11|ids|TransportParameterIDs-without-extension-not-nil", "spec without ClientHelloSpec / without the extension", item{})
		}
		// ---- IsGREASEQTPID on the boundary lattice and random IDs
		probe := []uint64{0, 1, 26, 27, 28, 57, 58, 59, 88, 89, 90, 0x3fff, 0x4000, 1<<62 - 1, 1 << 62, math.MaxUint64, math.MaxUint64 - 30, 27 + 31*((1<<62-1-27)/31)}
		for i := 0; i < 2000; i++ {
			probe = append(probe, rng.Uint64()>>uint(rng.IntN(64)))
			probe = append(probe, 27+31*(rng.Uint64()>>uint(8+rng.IntN(56))))
		}
		for _, id := range probe {
			if quic.IsGREASEQTPID(id) != specgen.IsGrease(id) {
				bad("C11|grease|IsGREASEQTPID-differs-from-definition", fmt.Sprintf("id %d: %v", id, quic.IsGREASEQTPID(id)), item{})
			}
			if id <= 1<<62-1 && quic.IsGREASEQTPID(id) != clienthellod.IsGREASETransportParameter(id) {
				bad("C11|grease|IsGREASEQTPID-differs-from-reference-fingerprinter", fmt.Sprintf("id %d", id), item{})
			}
		}
		l.Count("grease_ids_probed", int64(len(probe)))
		c.End()
	}
}

// ------------------------------------------------------------------------------------------------
// distribution of the permutation

// c11Band checks counts against Binomial(n, p) with a +-6.5 sigma band.
func c11Band(count, n int, p float64) (ok bool, sigmas float64) {
	mean := float64(n) * p
	sd := math.Sqrt(float64(n) * p * (1 - p))
	if sd == 0 {
		return float64(count) == mean, 0
	}
	z := (float64(count) - mean) / sd
	return math.Abs(z) <= 6.5, z
}

func c11Factorial(n int) int {
	f := 1
	for i := 2; i <= n; i++ {
		f *= i
	}
	return f
}

// c11Judge evaluates permutation counts of a list of n elements (perm key = comma separated original indices).
func c11Judge(c *evlog.Case, l *evlog.Log, level string, n, total int, perms map[string]int) {
	pos := make([][]int, n) // pos[element][position]
	for i := range pos {
		pos[i] = make([]int, n)
	}
	for k, cnt := range perms {
		f := strings.Split(strings.TrimSuffix(k, ","), ",")
		if len(f) != n {
			c.Violation("C11|distribution|not-a-permutation|"+level, fmt.Sprintf("order %q of a %d element list", k, n), perms)
			return
		}
		for p, e := range f {
			var ei int
			fmt.Sscan(e, &ei)
			if ei < 0 || ei >= n {
				c.Violation("C11|distribution|not-a-permutation|"+level, fmt.Sprintf("order %q", k), perms)
				return
			}
			pos[ei][p] += cnt
		}
	}
	l.Count(fmt.Sprintf("permutations_seen_n%d_%s", n, level), int64(len(perms)))
	if len(perms) != c11Factorial(n) {
		c.Violation(fmt.Sprintf("C11|distribution|unreachable-permutation|%s|n=%d", level, n), fmt.Sprintf("%d of %d permutations seen in %d draws", len(perms), c11Factorial(n), total), perms)
	}
	worst := 0.0
	for e := 0; e < n; e++ {
		for p := 0; p < n; p++ {
			ok, z := c11Band(pos[e][p], total, 1/float64(n))
			worst = math.Max(worst, math.Abs(z))
			if !ok {
				c.Violation(fmt.Sprintf("C11|distribution|position-frequency-outside-band|%s|n=%d", level, n), fmt.Sprintf("element %d at position %d: %d of %d draws (%.1f sigma from uniform)", e, p, pos[e][p], total, z), map[string]any{"perms": perms, "positions": pos})
				return
			}
		}
	}
	for k, cnt := range perms {
		if total/c11Factorial(n) < 1000 {
			break // too few draws per order for the normal band to be trustworthy; reachability and positions are checked above
		}
		if ok, z := c11Band(cnt, total, 1/float64(c11Factorial(n))); !ok {
			c.Violation(fmt.Sprintf("C11|distribution|permutation-frequency-outside-band|%s|n=%d", level, n), fmt.Sprintf("order %s: %d of %d draws (%.1f sigma from uniform)", k, cnt, total, z), perms)
			return
		}
	}
	c.Sample("distribution", map[string]any{"level": level, "n": n, "draws": total, "worst_position_sigma": math.Round(worst*100) / 100, "perms": perms})
}

func TestVerifC11Distribution(t *testing.T) {
	l := evlog.Open("C11")
	defer l.Close()
	lists := map[int][]specgen.Param{
		2: {{K: "idle", V: 30000}, {K: "data", V: 1 << 20}},
		3: {{K: "idle", V: 30000}, {K: "iscid"}, {K: "grease", N: 3}},
		4: {{K: "sbidi", V: 100}, {K: "fake", ID: 0x3128, N: 4}, {K: "iscid"}, {K: "udp", V: 1472}},
	}
	idx := 0
	for _, n := range []int{2, 3, 4} {
		// ---- the helper, called directly
		if l.Mine(idx) {
			total := l.Pick(120000, 1200000)
			if c := l.Begin(fmt.Sprintf("C11/distribution/direct/n=%d", n), map[string]any{"n": n, "draws": total}); c != nil {
				perms := map[string]int{}
				for i := 0; i < total; i++ {
					objs := specgen.BuildList(lists[n])
					ext := &tls.QUICTransportParametersExtension{TransportParameters: slices.Clone(objs)}
					quic.ShuffleQUICTransportParameters(ext)
					key := ""
					for _, p := range ext.TransportParameters {
						key += fmt.Sprintf("%d,", slices.IndexFunc(objs, func(o tls.TransportParameter) bool { return o.ID() == p.ID() }))
					}
					perms[key]++
				}
				l.Count("shuffles_direct", int64(total))
				c.Eval(fmt.Sprintf("direct/n=%d/perms=%d", n, len(perms)))
				c11Judge(c, l, "direct", n, total, perms)
				c.End()
			}
		}
		idx++
		// ---- dials with RandomizeTransportParameters, one spec value for all dials (plus one suppressed parameter)
		if l.Mine(idx) {
			total := l.Pick(2400, 36000)
			cs := c11Case{Name: fmt.Sprintf("distribution/dial/n=%d", n), Hello: "small", List: append(slices.Clone(lists[n]), specgen.Param{K: "dgram", V: 1200}), Suppress: []uint64{0x20}, Randomize: true, SCID: 3, Dials: total}
			if c := l.Begin("C11/"+cs.Name, cs); c != nil {
				synctest.Test(t, func(t *testing.T) {
					spec, orig, _ := c11Spec(&cs)
					cp, err := specgen.NewCapturer(quicworld.Options{ClientKind: "spec", Spec: spec, NoServer: true})
					if err != nil {
						c.Violation("C11|harness|world", err.Error(), nil)
						return
					}
					perms := map[string]int{}
					done := 0
					for dial := 1; dial <= total; dial++ {
						dc := cp.Dial(2*time.Millisecond, 2*time.Millisecond)
						w, err := specgen.ReadHello(dc.Dgrams)
						if err != nil || w.TP == nil {
							c.Violation("C11|wire|no-client-hello|distribution", fmt.Sprintf("dial %d: %v", dial, err), nil)
							break
						}
						key := ""
						for _, p := range w.TP {
							key += fmt.Sprintf("%d,", slices.IndexFunc(orig, func(o tls.TransportParameter) bool { return o.ID() == p.ID }))
						}
						perms[key]++
						done++
					}
					l.Count("dials", int64(done))
					l.Count("dials_randomised_order", int64(done))
					c.Eval(fmt.Sprintf("dial/n=%d/perms=%d", n, len(perms)))
					if done == total {
						c11Judge(c, l, "dial", n, total, perms)
					}
					cp.Close()
				})
				c.End()
			}
		}
		idx++
		// ---- the same after a Version Negotiation: the client offers v2 first, a Version Negotiation packet
		// listing only v1 comes back, the dial is re-created; the ClientHello of the re-created attempt must
		// be randomised like any other
		if l.Mine(idx) && n <= 3 {
			total := l.Pick(600, 18000)
			cs := c11Case{Name: fmt.Sprintf("distribution/dial-after-vn/n=%d", n), Hello: "small", List: append(slices.Clone(lists[n]), specgen.Param{K: "dgram", V: 1200}), Suppress: []uint64{0x20}, Randomize: true, SCID: 3, Dials: total}
			if c := l.Begin("C11/"+cs.Name, cs); c != nil {
				synctest.Test(t, func(t *testing.T) {
					spec, orig, _ := c11Spec(&cs)
					cp, err := specgen.NewCapturer(quicworld.Options{ClientKind: "spec", Spec: spec, NoServer: true,
						ClientConf: &quic.Config{Versions: []quic.Version{quic.Version2, quic.Version1}}})
					if err != nil {
						c.Violation("C11|harness|world", err.Error(), nil)
						return
					}
					inner := cp.W.Router.GetOnEmit()
					cp.W.Router.SetOnEmit(func(d *wiretap.DatagramInfo) *simworld.Action {
						if r := d.Raw; d.Dir == wiretap.C2S && len(r) > 7 && r[0]&0x80 != 0 && binary.BigEndian.Uint32(r[1:5]) == uint32(quic.Version2) {
							dl := int(r[5])
							if len(r) > 6+dl {
								sl := int(r[6+dl])
								if len(r) >= 7+dl+sl {
									cp.W.Router.Inject(wiretap.S2C, quicworld.ServerAddr, quicworld.ClientAddr, wiretap.VersionNegotiation(r[6:6+dl], r[7+dl:7+dl+sl], []uint32{1}), 100*time.Microsecond)
								}
							}
						}
						return inner(d)
					})
					perms := map[string]int{}
					done := 0
					for dial := 1; dial <= total; dial++ {
						dc := cp.Dial(3*time.Millisecond, 2*time.Millisecond)
						var v1 [][]byte
						for _, r := range dc.Dgrams {
							if len(r) > 5 && r[0]&0x80 != 0 && binary.BigEndian.Uint32(r[1:5]) == 1 {
								v1 = append(v1, r)
							}
						}
						w, err := specgen.ReadHello(v1)
						if err != nil || w.TP == nil {
							c.Violation("C11|wire|no-client-hello|distribution-after-vn", fmt.Sprintf("dial %d: %d datagrams, %d of them in version 1: %v", dial, len(dc.Dgrams), len(v1), err), nil)
							break
						}
						key := ""
						for _, p := range w.TP {
							key += fmt.Sprintf("%d,", slices.IndexFunc(orig, func(o tls.TransportParameter) bool { return o.ID() == p.ID }))
						}
						perms[key]++
						done++
					}
					l.Count("dials", int64(done))
					l.Count("dials_randomised_order_after_version_negotiation", int64(done))
					c.Eval(fmt.Sprintf("dial-after-vn/n=%d/perms=%d", n, len(perms)))
					if done == total {
						c11Judge(c, l, "dial-after-vn", n, total, perms)
					}
					cp.Close()
				})
				c.End()
			}
		}
		idx++
	}
}

// ------------------------------------------------------------------------------------------------
// the reference fingerprinter

func c11Fingerprint(dgrams [][]byte) (id string, frames string, err error) {
	gci := clienthellod.GatherClientInitialsWithDeadline(time.Now().Add(time.Minute))
	for i, raw := range dgrams {
		ci, err := clienthellod.UnmarshalQUICClientInitialPacket(raw)
		if err != nil {
			return "", "", fmt.Errorf("datagram %d: %w", i, err)
		}
		if err := gci.AddPacket(ci); err != nil {
			return "", "", fmt.Errorf("datagram %d: %w", i, err)
		}
		if gci.Completed() {
			break
		}
	}
	if !gci.Completed() {
		return "", "", fmt.Errorf("the fingerprinter did not complete on %d datagrams", len(dgrams))
	}
	fp, err := clienthellod.GenerateQUICFingerprint(gci)
	if err != nil {
		return "", "", err
	}
	set := map[uint64]bool{}
	for _, p := range gci.Packets {
		for _, t := range p.FrameTypes {
			set[t] = true
		}
	}
	var ts []int
	for t := range set {
		ts = append(ts, int(t))
	}
	sort.Ints(ts)
	return fp.HexID, fmt.Sprint(ts), nil
}

func TestVerifC11Fingerprint(t *testing.T) {
	l := evlog.Open("C11")
	defer l.Close()
	recorded := map[string]bool{"Chrome_115_IPv4": true, "Chrome_115_IPv6": true, "Firefox_116A": true, "Firefox_116B": true, "Firefox_116C": true}
	idx := 0
	for _, name := range quicworld.QUICIDNames {
		for _, mode := range []string{"one-spec", "spec-per-dial"} {
			mine := l.Mine(idx)
			idx++
			if !mine {
				continue
			}
			total := l.Pick(60, 2000)
			if mode == "spec-per-dial" {
				total = l.Pick(24, 400)
			}
			c := l.Begin(fmt.Sprintf("C11/fingerprint/%s/%s", name, mode), map[string]any{"quicid": name, "mode": mode, "dials": total})
			if c == nil {
				continue
			}
			qid := quicworld.QUICIDs[name]
			ids := map[string]int{}                 // identifier -> dials
			byFrames := map[string]map[string]int{} // frame type set -> identifier -> dials
			run := func(n int) {
				synctest.Test(t, func(t *testing.T) {
					spec, err := quic.QUICID2Spec(qid)
					if err != nil {
						c.Violation("C11|harness|spec", err.Error(), nil)
						return
					}
					cp, err := specgen.NewCapturer(quicworld.Options{ClientKind: "spec", Spec: &spec, NoServer: true})
					if err != nil {
						c.Violation("C11|harness|world", err.Error(), nil)
						return
					}
					for dial := 0; dial < n; dial++ {
						dc := cp.Dial(2*time.Millisecond, 2*time.Millisecond)
						l.Count("dials", 1)
						id, frames, err := c11Fingerprint(dc.Dgrams)
						if err != nil {
							c.Eval("")
							c.Violation("C11|fingerprint|reference-fingerprinter-cannot-read-the-flight|quicid="+name, err.Error(), nil)
							continue
						}
						l.Count("fingerprints_computed", 1)
						ids[id]++
						if byFrames[frames] == nil {
							byFrames[frames] = map[string]int{}
						}
						byFrames[frames][id]++
						c.Eval(fmt.Sprintf("%s/%s/%s/%s", name, mode, id, frames))
					}
					cp.Close()
				})
			}
			if mode == "one-spec" {
				run(total)
			} else {
				for i := 0; i < total/4; i++ {
					run(4)
				}
			}
			detail := fmt.Sprintf("identifiers over %d dials: %v; by set of frame types: %v; recorded in QUICID: %s", total, ids, byFrames, qid.Fingerprint)
			if len(ids) > 1 {
				// does the identifier follow the set of frame types of the flight (PING present or not)?
				cause := "other"
				follows := len(byFrames) > 1
				for _, m := range byFrames {
					if len(m) != 1 {
						follows = false
					}
				}
				if follows {
					cause = "follows-the-set-of-frame-types"
				}
				c.Violation("C11|fingerprint|identifier-varies-between-dials|"+cause+"|quicid="+name, detail, nil)
			}
			if recorded[name] {
				if ids[qid.Fingerprint] == 0 {
					c.Violation("C11|fingerprint|recorded-identifier-never-reproduced|quicid="+name, detail, nil)
				} else if len(ids) == 1 {
					l.Count("recorded_identifier_reproduced_on_every_dial", 1)
				}
			}
			c.Sample("fingerprint", map[string]any{"quicid": name, "mode": mode, "ids": ids, "by_frames": byFrames})
			c.End()
		}
	}
}

// c11DialName: the first dial of a case names localhost, every later one another host; the spec value is
// the same, the server name belongs to the dial.
func c11DialName(dial int) string {
	if dial <= 1 {
		return "localhost"
	}
	return fmt.Sprintf("c%d.test", dial%16)
}
