package quic_test

// C02 — every parrot or derived spec yields a working connection, dial after dial.

import (
	"context"
	"fmt"
	"net"
	"testing"
	"testing/synctest"
	"time"

	quic "github.com/refraction-networking/uquic"
	"github.com/refraction-networking/uquic/internal/verif/evlog"
	"github.com/refraction-networking/uquic/internal/verif/quicworld"
	"github.com/refraction-networking/uquic/internal/verif/simworld"
	"github.com/refraction-networking/uquic/internal/verif/specgen"
	"github.com/refraction-networking/uquic/internal/verif/wiretap"
	tls "github.com/refraction-networking/utls"
)

type c02Case struct {
	Name   string            `json:"name"`
	QUICID string            `json:"quicid"`
	Server string            `json:"server"` // default | retry | cid20 | smallwin
	Dials  int               `json:"dials"`
	Sched  simworld.Schedule `json:"schedule"`
	Bulk   bool              `json:"bulk,omitempty"` // megabytes in both directions on streams of every kind, read slowly: the peer runs ahead of the reader as far as the advertised windows allow
}

func c02ErrClass(err error) string {
	if err == nil {
		return "nil"
	}
	s := err.Error()
	if len(s) > 70 {
		s = s[:70]
	}
	// strip hex / numbers that vary
	out := []byte(s)
	for i, ch := range out {
		if ch >= '0' && ch <= '9' {
			out[i] = '#'
		}
	}
	return string(out)
}

func TestVerifC02Parrots(t *testing.T) {
	l := evlog.Open("C02")
	defer l.Close()
	var cases []c02Case
	rtt := 10 * time.Millisecond
	// (the late duplicates arrive after the handshake is confirmed and its keys are gone)
	k1 := []simworld.Action{{Kind: "drop"}, {Kind: "dup"}, {Kind: "delay", Delay: 4 * rtt}, {Kind: "dup", Delay: 3 * rtt}, {Kind: "dup", Delay: 12 * rtt}}
	// "hrr": the server only accepts a group the client offers no key share for, so the handshake goes through
	// a HelloRetryRequest and a second ClientHello; "hrr-retry": the same behind a Retry
	servers := []string{"default", "retry", "cid20", "hrr", "hrr-retry"}
	dials := l.Pick(3, 5)
	for _, id := range quicworld.QUICIDNames {
		for _, sv := range servers {
			cases = append(cases, c02Case{Name: fmt.Sprintf("clean/%s/%s", id, sv), QUICID: id, Server: sv, Dials: dials})
			if sv == "default" || sv == "hrr" {
				cases = append(cases, c02Case{Name: fmt.Sprintf("bulk/%s/%s", id, sv), QUICID: id, Server: sv, Dials: 2, Bulk: true})
			}
			nFirst := l.Pick(4, 6)
			if sv != "default" && l.Quick() {
				nFirst = 2
			}
			for d := 0; d < 2; d++ {
				for o := 0; o < nFirst; o++ {
					for ki, a := range k1 {
						cases = append(cases, c02Case{Name: fmt.Sprintf("k1/%s/%s/d%d-o%d-f%d", id, sv, d, o, ki), QUICID: id, Server: sv, Dials: dials,
							Sched: simworld.Schedule{Faults: []simworld.Fault{{Dir: wiretap.Dir(d), Ordinal: o, Action: a}}}})
					}
				}
			}
		}
	}
	{
		rng := l.Rand("c02k2")
		for i := 0; i < l.Pick(210, 40000); i++ {
			id := quicworld.QUICIDNames[rng.IntN(len(quicworld.QUICIDNames))]
			var fs []simworld.Fault
			for j := 0; j < 2; j++ {
				fs = append(fs, simworld.Fault{Dir: wiretap.Dir(rng.IntN(2)), Ordinal: rng.IntN(6), Action: k1[rng.IntN(len(k1))]})
			}
			cases = append(cases, c02Case{Name: fmt.Sprintf("k2/%s/%04d", id, i), QUICID: id, Server: servers[rng.IntN(len(servers))], Dials: dials, Sched: simworld.Schedule{Faults: fs}})
		}
	}
	for i, cs := range cases {
		if !l.Mine(i) {
			continue
		}
		c := l.Begin("C02/"+cs.Name, cs)
		if c == nil {
			continue
		}
		synctest.Test(t, func(t *testing.T) {
			spec, err := quic.QUICID2Spec(quicworld.QUICIDs[cs.QUICID])
			if err != nil {
				c.Violation("C02|spec|QUICID2Spec-error|"+cs.QUICID, err.Error(), nil)
				return
			}
			opt := quicworld.Options{Schedule: cs.Sched, RTT: 10 * time.Millisecond, ClientKind: "spec", Spec: &spec,
				ServerConf: &quic.Config{MaxIdleTimeout: 60 * time.Second, HandshakeIdleTimeout: 20 * time.Second},
				ClientConf: &quic.Config{MaxIdleTimeout: 60 * time.Second, HandshakeIdleTimeout: 20 * time.Second, KeepAlivePeriod: 3 * time.Second}}
			switch cs.Server {
			case "retry":
				opt.VerifySourceAddress = func(net.Addr) bool { return true }
			case "cid20":
				opt.ServerCIDLen = 20
			case "hrr", "hrr-retry":
				opt.ServerTLS = func(c *tls.Config) { c.CurvePreferences = []tls.CurveID{tls.CurveP384} }
				if cs.Server == "hrr-retry" {
					opt.VerifySourceAddress = func(net.Addr) bool { return true }
				}
			}
			ts := quicworld.TransferSpec{Streams: []quicworld.StreamSpec{{Bytes: 2000, Reply: 2000}}, ChunkSeed: uint64(i)}
			if cs.Bulk {
				ts.Streams = []quicworld.StreamSpec{{Bytes: 2000, Reply: 3 << 20, SlowReader: true}, {FromServer: true, Bytes: 2 << 20, Reply: 300000, SlowReader: true},
					{FromServer: true, Uni: true, Bytes: 2 << 20, SlowReader: true}, {Uni: true, Bytes: 1 << 20}}
				ts.MaxChunk = 16 << 10
			}
			sr := quicworld.RunDialSeries(opt, cs.Dials, ts, 10*time.Second, i*10)
			if sr.WorldErr != nil {
				c.Violation("C02|harness|world", sr.WorldErr.Error(), nil)
				return
			}
			for _, tp := range sr.Taps {
				for k, v := range tp.Counts {
					l.Count("wire:"+k, v)
				}
			}
			for _, d := range sr.Dials {
				fp := fmt.Sprintf("%s/dial%d", cs.Name, d.Index)
				if len(cs.Sched.Faults) > 0 && sr.FaultsApplied == 0 {
					fp = ""
				}
				c.Eval(fp)
				l.Count(fmt.Sprintf("dials_index_%d", d.Index), 1)
				phase := fmt.Sprintf("dial=%d", min(d.Index+1, 2)) // first dial vs. a later one
				tr := map[string]any{"router": sr.RouterLog}
				switch {
				case d.DialErr != nil:
					c.Violation(fmt.Sprintf("C02|spec=%s|%s|dial-error|%s", cs.QUICID, phase, c02ErrClass(d.DialErr)), fmt.Sprintf("dial %d: %v (accept: %v)", d.Index+1, d.DialErr, d.AcceptErr), tr)
					continue
				case d.AcceptErr != nil:
					c.Violation(fmt.Sprintf("C02|spec=%s|%s|accept-error", cs.QUICID, phase), fmt.Sprintf("dial %d: accept: %v", d.Index+1, d.AcceptErr), tr)
					continue
				}
				if d.Transfer.ClientCause != nil || d.Transfer.ServerCause != nil {
					c.Violation(fmt.Sprintf("C02|spec=%s|%s|connection-error-during-echo|%s", cs.QUICID, phase, c02ErrClass(d.Transfer.ClientCause)),
						fmt.Sprintf("dial %d: client cause %v; server cause %v", d.Index+1, d.Transfer.ClientCause, d.Transfer.ServerCause), tr)
					continue
				}
				for _, v := range d.Viols {
					c.Violation(fmt.Sprintf("C02|spec=%s|%s|%s", cs.QUICID, phase, v.Sig), v.Detail, tr)
				}
				if !d.Transfer.Completed && len(d.Viols) == 0 {
					c.Violation(fmt.Sprintf("C02|spec=%s|%s|echo-incomplete", cs.QUICID, phase), fmt.Sprintf("dial %d: %+v", d.Index+1, d.Transfer.Outcomes), tr)
				}
				if d.ClientCauseAfterIdle != nil || d.ServerCauseAfterIdle != nil {
					c.Violation(fmt.Sprintf("C02|spec=%s|%s|connection-error-after-echo|%s", cs.QUICID, phase, c02ErrClass(d.ClientCauseAfterIdle)),
						fmt.Sprintf("dial %d: 10 s after the echo: client cause %v; server cause %v", d.Index+1, d.ClientCauseAfterIdle, d.ServerCauseAfterIdle), tr)
					continue
				}
				l.Count("dials_ok", 1)
			}
			if lk := quicworld.BubbleGoroutines(); len(lk) > 0 {
				c.Violation("C02|leak|goroutines-alive-after-close", lk[0], nil)
			}
			c.Sample("dial-series", map[string]any{"case": cs.Name, "dials": len(sr.Dials), "faults_applied": sr.FaultsApplied})
		})
		c.End()
	}
}

// ---- derived specs -------------------------------------------------------------------------

type c02Derived struct {
	Name      string            `json:"name"`
	Base      string            `json:"base"` // a QUICID name, or "hello:<kind>" for a generated ClientHello
	SCID      int               `json:"scid_len"`
	InitPN    uint64            `json:"init_pn"`
	TokenLen  int               `json:"token_len"`
	Randomize bool              `json:"randomize_tp"`
	Suppress  []uint64          `json:"suppress"`
	Accessors bool              `json:"accessors,omitempty"` // the application calls the spec's read-only accessors (TransportParameterIDs) before dialing
	UDPMin    int               `json:"udp_min"`
	Builder   string            `json:"builder"` // keep nil random multi flight randomflight
	Server    string            `json:"server"`
	Sched     simworld.Schedule `json:"schedule"`
}

func (d *c02Derived) spec() (*quic.QUICSpec, error) {
	var spec quic.QUICSpec
	if len(d.Base) > 6 && d.Base[:6] == "hello:" {
		spec = quic.QUICSpec{ClientHelloSpec: specgen.HelloSpec(d.Base[6:], specgen.DefaultQTP())}
	} else {
		s, err := quic.QUICID2Spec(quicworld.QUICIDs[d.Base])
		if err != nil {
			return nil, err
		}
		spec = s
	}
	ps := &spec.InitialPacketSpec
	ps.SrcConnIDLength = d.SCID
	ps.InitPacketNumber = d.InitPN
	ps.InitPacketNumberLength = 0
	ps.InitPacketNumberLengths = nil
	ps.ClientTokenLength = d.TokenLen
	spec.RandomizeTransportParameters = d.Randomize
	spec.SuppressTransportParameters = d.Suppress
	spec.UDPDatagramMinSize = d.UDPMin
	switch d.Builder {
	case "nil":
		ps.FrameBuilder = nil
	case "random":
		ps.FrameBuilder = &quic.QUICRandomFrames{MinPING: 0, MaxPING: 3, MinCRYPTO: 1, MaxCRYPTO: 4}
	case "multi":
		ps.FrameBuilder = &quic.QUICMultiDatagramFrames{PerDatagram: []quic.QUICRandomFrames{{MinPING: 1, MaxPING: 2, MinCRYPTO: 2, MaxCRYPTO: 3}, {MinPING: 0, MaxPING: 1, MinCRYPTO: 1, MaxCRYPTO: 2}}}
	case "flight", "randomflight":
		// whole-flight builders: the tail and the head of the ClientHello in the first datagram, the middle in
		// as many further datagrams as its (approximately known) length needs; only for the generated hellos
		l, ok := map[string]int{"hello:small": 209, "hello:mid": 713, "hello:big1": 1063, "hello:pq": 1431, "hello:huge": 2935}[d.Base]
		if !ok {
			break // keep the parrot's own builder
		}
		const tail, head = 60, 40
		chunk := 900
		if m := (l - tail - head) % chunk; m < 80 || m > chunk-80 {
			chunk = 780
		}
		var mids [][2]int // offset, length (negative: stop that many bytes before the end)
		for off := head; ; off += chunk {
			if off+chunk >= l-tail {
				mids = append(mids, [2]int{off, -tail})
				break
			}
			mids = append(mids, [2]int{off, chunk})
		}
		if d.Builder == "flight" {
			f := &quic.QUICFlightFrames{Datagrams: []quic.QUICFrames{{quic.QUICFrameCrypto{Offset: -tail}, quic.QUICFramePing{}, quic.QUICFrameCrypto{Offset: 0, Length: head}}}}
			for _, m := range mids {
				f.Datagrams = append(f.Datagrams, quic.QUICFrames{quic.QUICFrameCrypto{Offset: m[0], Length: m[1]}})
			}
			ps.FrameBuilder = f
		} else {
			f := &quic.QUICRandomFlightFrames{PerDatagram: []quic.QUICRandomFlightDatagram{{
				CryptoRanges: []quic.QUICCryptoRange{{Offset: -tail}, {Offset: 0, Length: head}}, Frames: quic.QUICRandomFrames{MinCRYPTO: 2, MaxCRYPTO: 4, MinPING: 1, MaxPING: 3}}}}
			for _, m := range mids {
				f.PerDatagram = append(f.PerDatagram, quic.QUICRandomFlightDatagram{CryptoRanges: []quic.QUICCryptoRange{{Offset: m[0], Length: m[1]}}, Frames: quic.QUICRandomFrames{MinCRYPTO: 1, MaxCRYPTO: 3}})
			}
			ps.FrameBuilder = f
		}
	}
	return &spec, nil
}

func TestVerifC02Derived(t *testing.T) {
	l := evlog.Open("C02")
	defer l.Close()
	rng := l.Rand("c02derived")
	n := l.Pick(250, 24000)
	bases := append([]string{"hello:small", "hello:mid", "hello:big1", "hello:pq", "hello:huge"}, quicworld.QUICIDNames...)
	acts := []simworld.Action{{Kind: "drop"}, {Kind: "dup"}, {Kind: "delay", Delay: 40 * time.Millisecond}, {Kind: "dup", Delay: 30 * time.Millisecond}, {Kind: "dup", Delay: 120 * time.Millisecond}}
	// transport parameters a conformant server does not require
	optional := []uint64{27, 0x03, 0x0b, 0x0a, 0x0c, 0x20, 0x0e}
	var cases []c02Derived
	for i := 0; i < n; i++ {
		d := c02Derived{Base: bases[rng.IntN(len(bases))], SCID: []int{0, 3, 8, 20}[rng.IntN(4)], InitPN: []uint64{0, 1, 2, 255}[rng.IntN(4)],
			TokenLen: []int{0, 0, 16, 70}[rng.IntN(4)], Randomize: rng.IntN(2) == 0, UDPMin: []int{0, 1200, 1357}[rng.IntN(3)],
			Builder: []string{"keep", "keep", "nil", "random", "multi", "flight", "randomflight"}[rng.IntN(7)], Server: []string{"default", "retry", "cid20", "hrr", "hrr-retry"}[rng.IntN(5)]}
		for _, id := range optional {
			if rng.IntN(4) == 0 {
				d.Suppress = append(d.Suppress, id)
			}
		}
		for k := rng.IntN(3); k > 0; k-- {
			d.Sched.Faults = append(d.Sched.Faults, simworld.Fault{Dir: wiretap.Dir(rng.IntN(2)), Ordinal: rng.IntN(6), Action: acts[rng.IntN(len(acts))]})
		}
		d.Accessors = rng.IntN(2) == 0
		d.Name = fmt.Sprintf("derived/%05d/%s", i, d.Base)
		cases = append(cases, d)
	}
	for i, cs := range cases {
		if !l.Mine(i) {
			continue
		}
		c := l.Begin("C02/"+cs.Name, cs)
		if c == nil {
			continue
		}
		synctest.Test(t, func(t *testing.T) {
			spec, err := cs.spec()
			if err != nil {
				c.Violation("C02|derived|spec-error", err.Error(), nil)
				return
			}
			if cs.Accessors {
				// reading what the spec will put on the wire must not change what it puts on the wire
				spec.TransportParameterIDs()
				spec.TransportParameterIDs()
				l.Count("derived_specs_read_before_dial", 1)
			}
			opt := quicworld.Options{Schedule: cs.Sched, RTT: 10 * time.Millisecond, ClientKind: "spec", Spec: spec,
				ServerConf: &quic.Config{MaxIdleTimeout: 60 * time.Second, HandshakeIdleTimeout: 20 * time.Second},
				ClientConf: &quic.Config{MaxIdleTimeout: 60 * time.Second, HandshakeIdleTimeout: 20 * time.Second, KeepAlivePeriod: 3 * time.Second}}
			switch cs.Server {
			case "retry":
				opt.VerifySourceAddress = func(net.Addr) bool { return true }
			case "cid20":
				opt.ServerCIDLen = 20
			case "hrr", "hrr-retry":
				opt.ServerTLS = func(c *tls.Config) { c.CurvePreferences = []tls.CurveID{tls.CurveP384} }
				if cs.Server == "hrr-retry" {
					opt.VerifySourceAddress = func(net.Addr) bool { return true }
				}
			}
			ts := quicworld.TransferSpec{Streams: []quicworld.StreamSpec{{Bytes: 2000, Reply: 2000}}, ChunkSeed: uint64(i)}
			sr := quicworld.RunDialSeries(opt, 3, ts, 5*time.Second, i*10)
			if sr.WorldErr != nil {
				c.Violation("C02|harness|world", sr.WorldErr.Error(), nil)
				return
			}
			class := fmt.Sprintf("base=%s|builder=%s", cs.Base, cs.Builder)
			for _, d := range sr.Dials {
				c.Eval(fmt.Sprintf("%s/dial%d", cs.Name, d.Index))
				phase := fmt.Sprintf("dial=%d", min(d.Index+1, 2))
				tr := map[string]any{"router": sr.RouterLog}
				switch {
				case d.DialErr != nil:
					c.Violation(fmt.Sprintf("C02|derived|%s|%s|dial-error|%s", class, phase, c02ErrClass(d.DialErr)), fmt.Sprintf("dial %d: %v (accept: %v)", d.Index+1, d.DialErr, d.AcceptErr), tr)
				case d.AcceptErr != nil:
					c.Violation(fmt.Sprintf("C02|derived|%s|%s|accept-error", class, phase), fmt.Sprintf("dial %d: accept: %v", d.Index+1, d.AcceptErr), tr)
				case d.Transfer.ClientCause != nil || d.Transfer.ServerCause != nil:
					c.Violation(fmt.Sprintf("C02|derived|%s|%s|connection-error-during-echo|%s", class, phase, c02ErrClass(d.Transfer.ClientCause)),
						fmt.Sprintf("dial %d: client cause %v; server cause %v", d.Index+1, d.Transfer.ClientCause, d.Transfer.ServerCause), tr)
				case !d.Transfer.Completed || len(d.Viols) > 0:
					c.Violation(fmt.Sprintf("C02|derived|%s|%s|echo-failed", class, phase), fmt.Sprintf("dial %d: %+v %+v", d.Index+1, d.Viols, d.Transfer.Outcomes), tr)
				case d.ClientCauseAfterIdle != nil || d.ServerCauseAfterIdle != nil:
					c.Violation(fmt.Sprintf("C02|derived|%s|%s|connection-error-after-echo|%s", class, phase, c02ErrClass(d.ClientCauseAfterIdle)),
						fmt.Sprintf("dial %d: client cause %v; server cause %v", d.Index+1, d.ClientCauseAfterIdle, d.ServerCauseAfterIdle), tr)
				default:
					l.Count("derived_dials_ok", 1)
				}
			}
			if lk := quicworld.BubbleGoroutines(); len(lk) > 0 {
				c.Violation("C02|leak|goroutines-alive-after-close", lk[0], nil)
			}
		})
		c.End()
	}
}

// ---- a UTransport without a spec behaves like a plain Transport ------------------------------

// c02Shape is what must not depend on whether the dial went through Transport or UTransport{nil}:
// header fields, sizes, transport parameters and ClientHello structure of the first flight
// (the CRYPTO framing itself is randomised by the ClientHello scrambler in both cases).
func c02Shape(tap *wiretap.ConnTap) (string, error) {
	if tap.CH == nil || tap.ClientTP == nil || len(tap.FirstFlight) == 0 {
		return "", fmt.Errorf("first flight not readable")
	}
	// the destination connection ID length is drawn from 8..20 per dial, and one GREASE transport
	// parameter with a random ID and value is added: both are reduced to their class
	s := fmt.Sprintf("v=%x dcid_in_8_20=%v scid=%d", tap.Version, len(tap.ODCID) >= 8 && len(tap.ODCID) <= 20, len(tap.ClientSCID))
	types := map[string]bool{}
	for i, d := range tap.FirstFlight {
		s += fmt.Sprintf(" dgram%d=%dB", i, len(d.Raw))
		for _, p := range d.Packets {
			s += fmt.Sprintf("[%s pn=%d pnlen=%d tok=%d]", p.Kind, p.PN, p.PNLen, len(p.Token))
			for _, f := range p.Frames {
				types[f.Name()] = true
			}
		}
	}
	s += fmt.Sprintf(" frames=%v suites=%v exts=", len(types), tap.CH.CipherSuites)
	for _, e := range tap.CH.Extensions {
		s += fmt.Sprintf("%d,", e.Type)
	}
	s += " tp="
	for _, p := range tap.ClientTP.List {
		if p.ID == wiretap.TPInitialSCID {
			s += fmt.Sprintf("%#x:len%d,", p.ID, len(p.Value))
		} else if p.ID >= 27 && (p.ID-27)%31 == 0 {
			s += "grease,"
		} else {
			s += fmt.Sprintf("%#x:%x,", p.ID, p.Value)
		}
	}
	return s, nil
}

func TestVerifC02NilSpec(t *testing.T) {
	l := evlog.Open("C02")
	defer l.Close()
	confs := []struct {
		name string
		mk   func() *quic.Config
	}{
		{"default", func() *quic.Config { return &quic.Config{} }},
		{"datagrams", func() *quic.Config { return &quic.Config{EnableDatagrams: true, MaxIdleTimeout: 17 * time.Second} }},
		{"v2", func() *quic.Config { return &quic.Config{Versions: []quic.Version{quic.Version2}} }},
		{"windows", func() *quic.Config {
			return &quic.Config{InitialStreamReceiveWindow: 77777, InitialConnectionReceiveWindow: 99999, MaxIncomingStreams: 7, MaxIncomingUniStreams: 3, InitialPacketSize: 1252}
		}},
	}
	dials := l.Pick(6, 150)
	for i, cf := range confs {
		if !l.Mine(i) {
			continue
		}
		c := l.Begin("C02/nilspec/"+cf.name, map[string]any{"config": cf.name, "dials": dials})
		if c == nil {
			continue
		}
		shapes := map[string]map[string]int{"plain": {}, "unil": {}}
		for _, kind := range []string{"plain", "unil"} {
			for d := 0; d < dials; d++ {
				synctest.Test(t, func(t *testing.T) {
					sconf := cf.mk()
					w, err := quicworld.New(quicworld.Options{RTT: 10 * time.Millisecond, ClientKind: kind, ClientConf: cf.mk(), ServerConf: sconf})
					if err != nil {
						c.Violation("C02|harness|world", err.Error(), nil)
						return
					}
					ctx, cancel := context.WithTimeout(context.Background(), 10*time.Second)
					go func() {
						if sc, err := w.Accept(ctx); err == nil {
							<-sc.Context().Done()
						}
					}()
					cc, err := w.Dial(ctx)
					if err != nil {
						c.Violation("C02|nilspec|dial-error|kind="+kind, err.Error(), nil)
					} else {
						cc.CloseWithError(0, "")
					}
					cancel()
					w.Close()
					time.Sleep(time.Second)
					if taps := w.Wire.Snapshot(); len(taps) > 0 {
						if sh, err := c02Shape(taps[0]); err == nil {
							shapes[kind][sh]++
						} else {
							c.Violation("C02|nilspec|first-flight-unreadable|kind="+kind, err.Error(), nil)
						}
					}
				})
				c.Eval(fmt.Sprintf("nilspec/%s/%s", cf.name, kind))
			}
		}
		for sh := range shapes["unil"] {
			if shapes["plain"][sh] == 0 {
				var ref string
				for p := range shapes["plain"] {
					ref = p
				}
				c.Violation("C02|nilspec|first-flight-shape-differs-from-plain-transport|config="+cf.name, fmt.Sprintf("UTransport without a spec sent a first flight with a shape a plain Transport never produced under the same Config.\nUTransport{nil}: %s\nTransport      : %s", sh, ref), nil)
			}
		}
		l.Count("nilspec_shapes_compared", int64(len(shapes["unil"])+len(shapes["plain"])))
		c.Sample("nilspec", map[string]any{"config": cf.name, "distinct_shapes_plain": len(shapes["plain"]), "distinct_shapes_unil": len(shapes["unil"])})
		c.End()
	}
}

// ---- overlapping dials -----------------------------------------------------------------------

// TestVerifC02Overlap: successive dials with one spec value on one UTransport while the earlier
// connections are still open and moving data (the next dial starts 1.5 RTT into the previous
// connection's transfer).  Fingerprints with an empty source connection ID (Chrome) are given an
// 8-byte one: with empty IDs a transport cannot tell two live connections apart, which is a documented
// limit and not the subject here.  The same job is run under the race detector.
func TestVerifC02Overlap(t *testing.T) { c02Overlap(t, false) }

// TestVerifC02OverlapRace is the same job for the binary built with -race.
func TestVerifC02OverlapRace(t *testing.T) { c02Overlap(t, true) }

func c02Overlap(t *testing.T, raceJob bool) {
	l := evlog.Open("C02")
	defer l.Close()
	type ovCase struct {
		Name   string            `json:"name"`
		QUICID string            `json:"quicid"` // or "unil"
		Dials  int               `json:"dials"`
		Sched  simworld.Schedule `json:"schedule"`
		Simul  bool              `json:"simultaneous,omitempty"` // all dials start at the same instant
		Retry  bool              `json:"retry,omitempty"`
	}
	var cases []ovCase
	ids := append([]string{"unil", "plain"}, quicworld.QUICIDNames...) // "plain": the ordinary Transport, as the reference the spec-less UTransport has to match
	drop := simworld.Action{Kind: "drop"}
	for rep := 0; rep < l.Pick(1, 15); rep++ {
		for _, id := range ids {
			cases = append(cases, ovCase{Name: fmt.Sprintf("overlap/clean/%s/r%d", id, rep), QUICID: id, Dials: 3 + rep%2})
			for d := 0; d < 2; d++ {
				for o := 0; o < l.Pick(2, 4); o++ {
					cases = append(cases, ovCase{Name: fmt.Sprintf("overlap/k1/%s/d%d-o%d/r%d", id, d, o, rep), QUICID: id, Dials: 3,
						Sched: simworld.Schedule{Faults: []simworld.Fault{{Dir: wiretap.Dir(d), Ordinal: o, Action: drop}}}})
				}
			}
		}
	}
	// dials that start at the same instant (handshakes, Retry handling and the per-dial copies of the spec run
	// concurrently in one process)
	for rep := 0; rep < l.Pick(2, 25); rep++ {
		for _, id := range ids {
			if id != "unil" && id != "plain" {
				// Simultaneous dials of a spec-driven client share the spec's uTLS extension objects (server
				// name, ALPS, padding ... are filled in and serialised per connection): they interfere with each
				// other.  The property speaks of successive dials; see DESIGN.md F.7.
				continue
			}
			for _, retry := range []bool{false, true} {
				cases = append(cases, ovCase{Name: fmt.Sprintf("simultaneous/clean/%s/retry=%v/r%d", id, retry, rep), QUICID: id, Dials: 4 + rep%3, Simul: true, Retry: retry})
			}
			cases = append(cases, ovCase{Name: fmt.Sprintf("simultaneous/k1/%s/r%d", id, rep), QUICID: id, Dials: 4, Simul: true, Retry: rep%2 == 1,
				Sched: simworld.Schedule{Faults: []simworld.Fault{{Dir: wiretap.Dir(rep % 2), Ordinal: rep % 5, Action: drop}}}})
		}
	}
	for i, cs := range cases {
		if !l.Mine(i) {
			continue
		}
		c := l.Begin("C02/"+cs.Name, cs)
		if c == nil {
			continue
		}
		synctest.Test(t, func(t *testing.T) {
			opt := quicworld.Options{Schedule: cs.Sched, RTT: 10 * time.Millisecond, ClientKind: "unil",
				ServerConf: &quic.Config{MaxIdleTimeout: 60 * time.Second, HandshakeIdleTimeout: 20 * time.Second},
				ClientConf: &quic.Config{MaxIdleTimeout: 60 * time.Second, HandshakeIdleTimeout: 20 * time.Second, KeepAlivePeriod: 3 * time.Second}}
			if cs.QUICID == "plain" {
				opt.ClientKind = "plain"
			} else if cs.QUICID != "unil" {
				spec, err := quic.QUICID2Spec(quicworld.QUICIDs[cs.QUICID])
				if err != nil {
					c.Violation("C02|spec|QUICID2Spec-error|"+cs.QUICID, err.Error(), nil)
					return
				}
				if spec.InitialPacketSpec.SrcConnIDLength == 0 {
					spec.InitialPacketSpec.SrcConnIDLength = 8
				}
				opt.ClientKind, opt.Spec = "spec", &spec
			}
			ts := quicworld.TransferSpec{Streams: []quicworld.StreamSpec{{Bytes: 150000, Reply: 40000}, {Bytes: 3000, Reply: 3000}}, ChunkSeed: uint64(i)}
			if cs.Retry {
				opt.VerifySourceAddress = func(net.Addr) bool { return true }
			}
			var sr *quicworld.SeriesResult
			if cs.Simul {
				sr = quicworld.RunDialsSimultaneous(opt, cs.Dials, ts, 5*time.Second, i*10)
			} else {
				sr = quicworld.RunDialSeriesOverlap(opt, cs.Dials, ts, 5*time.Second, i*10)
			}
			if sr.WorldErr != nil {
				c.Violation("C02|harness|world", sr.WorldErr.Error(), nil)
				return
			}
			for _, d := range sr.Dials {
				c.Eval(fmt.Sprintf("%s/dial%d", cs.Name, d.Index))
				l.Count("overlap_dials", 1)
				phase := fmt.Sprintf("overlap|dial=%d", min(d.Index+1, 2))
				tr := map[string]any{"router": sr.RouterLog}
				switch {
				case d.DialErr != nil:
					c.Violation(fmt.Sprintf("C02|spec=%s|%s|dial-error|%s", cs.QUICID, phase, c02ErrClass(d.DialErr)), fmt.Sprintf("dial %d: %v (accept: %v)", d.Index+1, d.DialErr, d.AcceptErr), tr)
					continue
				case d.AcceptErr != nil:
					c.Violation(fmt.Sprintf("C02|spec=%s|%s|accept-error", cs.QUICID, phase), fmt.Sprintf("dial %d: accept: %v", d.Index+1, d.AcceptErr), tr)
					continue
				}
				if d.Transfer.ClientCause != nil || d.Transfer.ServerCause != nil {
					c.Violation(fmt.Sprintf("C02|spec=%s|%s|connection-error-during-transfer|%s", cs.QUICID, phase, c02ErrClass(d.Transfer.ClientCause)),
						fmt.Sprintf("dial %d: client cause %v; server cause %v", d.Index+1, d.Transfer.ClientCause, d.Transfer.ServerCause), tr)
					continue
				}
				for _, v := range d.Viols {
					c.Violation(fmt.Sprintf("C02|spec=%s|%s|%s", cs.QUICID, phase, v.Sig), v.Detail, tr)
				}
				if !d.Transfer.Completed && len(d.Viols) == 0 {
					c.Violation(fmt.Sprintf("C02|spec=%s|%s|transfer-incomplete", cs.QUICID, phase), fmt.Sprintf("dial %d: %+v", d.Index+1, d.Transfer.Outcomes), tr)
				}
				if d.ClientCauseAfterIdle != nil || d.ServerCauseAfterIdle != nil {
					c.Violation(fmt.Sprintf("C02|spec=%s|%s|connection-error-after-transfer|%s", cs.QUICID, phase, c02ErrClass(d.ClientCauseAfterIdle)),
						fmt.Sprintf("dial %d: 5 s after the transfers: client cause %v; server cause %v", d.Index+1, d.ClientCauseAfterIdle, d.ServerCauseAfterIdle), tr)
					continue
				}
				l.Count("overlap_dials_ok", 1)
			}
			if lk := quicworld.BubbleGoroutines(); len(lk) > 0 {
				c.Violation("C02|leak|goroutines-alive-after-close", lk[0], nil)
			}
		})
		c.End()
	}
}
