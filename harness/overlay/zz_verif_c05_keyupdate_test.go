package quic_test

// C05, connection level (E1): "across arbitrary sequences of key updates ... key updates are neither
// initiated nor accepted earlier than the protocol allows".  A real client and a real server over the
// simulated network, handshake confirmed, optionally some traffic.  The wire observer derives the next key
// generations independently (RFC 9001 section 6) and forges, on behalf of the peer, a correctly protected
// packet in the next key phase: the victim must accept it and answer in the new phase.  A second forged
// update that arrives before the victim has sent anything in the new phase is earlier than the protocol
// allows and must end the connection with KEY_UPDATE_ERROR, at the API and on the wire.

import (
	"context"
	"errors"
	"fmt"
	"io"
	"net"
	"testing"
	"testing/synctest"
	"time"

	quic "github.com/refraction-networking/uquic"
	"github.com/refraction-networking/uquic/internal/verif/evlog"
	"github.com/refraction-networking/uquic/internal/verif/quicworld"
	"github.com/refraction-networking/uquic/internal/verif/wiretap"
)

type c05kCase struct {
	Name   string `json:"name"`
	Client string `json:"client"`
	V2     bool   `json:"v2"`
	Victim string `json:"victim"`
	KB     int    `json:"kb"`
	Probe  string `json:"probe"` // update | update-twice-at-once | update-then-more
	Gap    int    `json:"gap_ms"`
}

func TestVerifC05WireKeyUpdate(t *testing.T) {
	l := evlog.Open("C05")
	defer l.Close()
	var cases []c05kCase
	clients := []string{"plain", "unil", "Chrome_115_IPv4", "Firefox_116A"}
	rng := l.Rand("c05keyupdate")
	n := l.Pick(600, 12000)
	for i := 0; i < n; i++ {
		cs := c05kCase{Client: clients[rng.IntN(len(clients))], Victim: []string{"client", "server"}[rng.IntN(2)], KB: []int{0, 1, 20, 200}[rng.IntN(4)],
			Probe: []string{"update", "update-twice-at-once", "update-then-more"}[rng.IntN(3)], Gap: []int{40, 100, 1000}[rng.IntN(3)]}
		cs.V2 = cs.Client == "plain" && rng.IntN(3) == 0
		cs.Name = fmt.Sprintf("%05d/%s/v2=%v/%s/%dk/%s/gap%d", i, cs.Client, cs.V2, cs.Victim, cs.KB, cs.Probe, cs.Gap)
		cases = append(cases, cs)
	}
	for i, cs := range cases {
		if !l.Mine(i) {
			continue
		}
		c := l.Begin("C05/keyupdate/"+cs.Name, cs)
		if c == nil {
			continue
		}
		synctest.Test(t, func(t *testing.T) { runC05KeyUpdate(l, c, &cs) })
		c.End()
	}
}

func runC05KeyUpdate(l *evlog.Log, c *evlog.Case, cs *c05kCase) {
	var world *quicworld.World
	kind := cs.Client
	if kind != "plain" && kind != "unil" {
		kind = "parrot"
	}
	viol := func(sig, f string, a ...any) {
		tr := map[string]any{"case": cs}
		if world != nil {
			if taps := world.Wire.Snapshot(); len(taps) > 0 {
				tr["wire_tail"] = taps[len(taps)-1].Describe(12)
			}
		}
		c.Violation(fmt.Sprintf("C05|keyupdate|%s|%s|%s", sig, kind, cs.Victim), fmt.Sprintf(f, a...), tr)
	}
	victimIsClient := cs.Victim == "client"
	opt, err := quicworld.OptionsFor(&quicworld.ConnCase{Client: cs.Client, RTTms: 10, V2: cs.V2})
	if err != nil {
		viol("harness", "%v", err)
		return
	}
	opt.ClientConf.MaxIdleTimeout, opt.ServerConf.MaxIdleTimeout = 5*time.Minute, 5*time.Minute
	w, err := quicworld.New(opt)
	if err != nil {
		viol("harness", "world: %v", err)
		return
	}
	world = w
	defer func() {
		w.Close()
		time.Sleep(time.Minute)
		synctest.Wait()
		if lk := quicworld.BubbleGoroutines(); len(lk) > 0 {
			viol("leak|goroutines-alive-after-close", "%s", lk[0])
		}
	}()
	ctx, cancel := context.WithTimeout(context.Background(), 5*time.Minute)
	defer cancel()
	type acc struct {
		c   *quic.Conn
		err error
	}
	accCh := make(chan acc, 1)
	go func() {
		sc, err := w.Accept(ctx)
		accCh <- acc{sc, err}
	}()
	cc, err := w.Dial(ctx)
	if err != nil {
		cancel()
		<-accCh
		viol("dial-failed", "%v", err)
		return
	}
	a := <-accCh
	if a.err != nil {
		cc.CloseWithError(0, "")
		viol("accept-failed", "%v", a.err)
		return
	}
	sc := a.c
	victim, peer := sc, cc
	vdir := wiretap.S2C
	if victimIsClient {
		victim, peer = cc, sc
		vdir = wiretap.C2S
	}
	pdir := vdir.Other()
	defer func() {
		cc.CloseWithError(0, "")
		sc.CloseWithError(0, "")
	}()
	if cs.KB > 0 {
		errc := make(chan error, 2)
		go func() {
			s, err := victim.OpenUniStreamSync(ctx)
			if err != nil {
				errc <- err
				return
			}
			if _, err := s.Write(make([]byte, cs.KB<<10)); err != nil {
				errc <- err
				return
			}
			errc <- s.Close()
		}()
		go func() {
			s, err := peer.AcceptUniStream(ctx)
			if err != nil {
				errc <- err
				return
			}
			_, err = io.Copy(io.Discard, s)
			errc <- err
		}()
		for i := 0; i < 2; i++ {
			if err := <-errc; err != nil {
				viol("harness", "transfer: %v", err)
				return
			}
		}
	}
	time.Sleep(500 * time.Millisecond)
	synctest.Wait()
	taps := w.Wire.Snapshot()
	if len(taps) == 0 {
		viol("harness", "no tap")
		return
	}
	tap := taps[len(taps)-1]
	phases := func() (int, int, int) {
		w.Wire.Lock()
		defer w.Wire.Unlock()
		return tap.KeyPhases[vdir], tap.KeyPhases[pdir], len(tap.Closes[vdir])
	}
	v0, p0, _ := phases()
	if v0 != p0 {
		viol("harness", "key phases differ before the probe: victim %d, peer %d", v0, p0)
		return
	}
	w.Router.SetBlackhole(vdir, true)
	defer w.Router.SetBlackhole(vdir, false)
	from, to := net.Addr(quicworld.ServerAddr), net.Addr(quicworld.ClientAddr)
	if !victimIsClient {
		from, to = to, from
	}
	inject := func(advance int) bool {
		payload := []byte{0x01} // PING
		if cs.Probe == "update-twice-at-once" && advance == 1 {
			// nothing that makes the victim send (no ack-eliciting frame): whatever the scheduling of the two
			// deliveries, the victim has sent nothing in the first new phase when the second update arrives
			payload = []byte{0, 0, 0, 0}
		}
		pkt, err := tap.ForgeShortPhase(pdir, advance, payload)
		if err != nil {
			viol("harness", "forge: %v", err)
			return false
		}
		w.Router.Inject(pdir, from, to, pkt, 0)
		return true
	}
	if !inject(1) {
		return
	}
	if cs.Probe == "update-twice-at-once" {
		if !inject(2) {
			return
		}
	}
	time.Sleep(time.Duration(cs.Gap) * time.Millisecond)
	synctest.Wait()
	c.Eval(fmt.Sprintf("%s|v2=%v|%s|%s|kb%d|gap%d|phase%d", kind, cs.V2, cs.Victim, cs.Probe, cs.KB, cs.Gap, v0))
	keyUpdateError := func(what string) bool {
		if victim.Context().Err() == nil {
			viol("premature-key-update-accepted|"+cs.Probe, "%s: the victim's connection is still up", what)
			return false
		}
		cause := context.Cause(victim.Context())
		var te *quic.TransportError
		if !errors.As(cause, &te) || te.Remote || te.ErrorCode != quic.KeyUpdateError {
			viol("wrong-error|"+cs.Probe, "%s: the victim ended with %v, want a local KEY_UPDATE_ERROR", what, cause)
			return false
		}
		w.Wire.Lock()
		good := len(tap.Closes[vdir]) > 0 && tap.Closes[vdir][0].Type == wiretap.FtConnClose && tap.Closes[vdir][0].ErrorCode == 0xe
		w.Wire.Unlock()
		if !good {
			viol("peer-not-told|"+cs.Probe, "%s: no transport CONNECTION_CLOSE with KEY_UPDATE_ERROR (0xe) that the observer could open was emitted by the victim", what)
			return false
		}
		l.Count("wire_premature_key_updates_rejected", 1)
		return true
	}
	if cs.Probe == "update-twice-at-once" {
		keyUpdateError("two key updates by the peer at the same instant (the victim cannot have sent anything in the first new phase)")
		return
	}
	v1, _, nClose := phases()
	if victim.Context().Err() != nil || nClose > 0 {
		viol("valid-key-update-rejected", "a correctly protected packet in the next key phase (the handshake is confirmed, the peer has had acknowledgements in phase %d): the victim closed the connection: %v", v0, context.Cause(victim.Context()))
		return
	}
	if v1 != v0+1 {
		viol("key-update-not-followed", "%d ms after a packet in key phase %d was delivered, the victim's last packet is in phase %d (it owes an acknowledgement of the PING)", cs.Gap, v0+1, v1)
		return
	}
	l.Count("wire_peer_key_updates_followed", 1)
	if cs.Probe == "update-then-more" {
		// a further packet of the (for the victim now current) phase
		if !inject(1) {
			return
		}
		time.Sleep(100 * time.Millisecond)
		synctest.Wait()
		if _, _, nClose := phases(); victim.Context().Err() != nil || nClose > 0 {
			viol("packet-of-current-phase-rejected", "a second packet in key phase %d: the victim closed the connection: %v", v0+1, context.Cause(victim.Context()))
			return
		}
		l.Count("wire_packets_after_update_accepted", 1)
	}
}
