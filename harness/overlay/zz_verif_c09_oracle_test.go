package quic

// C09 — Initial CRYPTO framing always carries the complete ClientHello at true offsets.
//
// This file holds the independent oracle shared by the C09 monitors:
//   - a decoder for the three frame types an Initial flight of a client may carry before the
//     server answered (PADDING 0x00, PING 0x01, CRYPTO 0x06 — RFC 9000 §19.1/19.2/19.6) with its
//     own varint reader (RFC 9000 §16); nothing of internal/wire, quicvarint or clienthellod is used
//     for the verdict,
//   - the coverage-mask / byte-comparison check,
//   - an independent resolver for QUICCryptoRange semantics as documented in u_flight_frames.go,
//   - a generator of structurally well-formed TLS ClientHello messages (so that findSNIAndECH has
//     something to find) with SNI / ECH at chosen positions.

import (
	"encoding/hex"
	"fmt"
	"math/rand/v2"
	"runtime/debug"
	"strings"
)

// ---------------------------------------------------------------------------------------
// frame decoder

type c09Frame struct {
	Typ        byte
	Off, Len   uint64
	Data       []byte
	OffW, LenW int // varint widths (1,2,4,8)
}

// c09Varint reads one RFC 9000 variable-length integer.
func c09Varint(p []byte) (v uint64, w int, ok bool) {
	if len(p) == 0 {
		return 0, 0, false
	}
	w = 1 << (p[0] >> 6)
	if len(p) < w {
		return 0, 0, false
	}
	v = uint64(p[0] & 0x3f)
	for i := 1; i < w; i++ {
		v = v<<8 | uint64(p[i])
	}
	return v, w, true
}

func c09VarintLen(v uint64) int {
	switch {
	case v < 1<<6:
		return 1
	case v < 1<<14:
		return 2
	case v < 1<<30:
		return 4
	}
	return 8
}

// c09Decode splits a frame payload.  A run of PADDING bytes is returned as one frame with
// Len = run length.  cls is "" or the failure class.
func c09Decode(p []byte) (frames []c09Frame, cls, detail string) {
	i := 0
	for i < len(p) {
		switch p[i] {
		case 0x00:
			j := i
			for j < len(p) && p[j] == 0 {
				j++
			}
			frames = append(frames, c09Frame{Typ: 0, Len: uint64(j - i)})
			i = j
		case 0x01:
			frames = append(frames, c09Frame{Typ: 1})
			i++
		case 0x06:
			start := i
			i++
			off, ow, ok := c09Varint(p[i:])
			if !ok {
				return frames, "malformed-frame", fmt.Sprintf("CRYPTO frame at payload byte %d: truncated offset varint", start)
			}
			i += ow
			n, lw, ok := c09Varint(p[i:])
			if !ok {
				return frames, "malformed-frame", fmt.Sprintf("CRYPTO frame at payload byte %d: truncated length varint", start)
			}
			i += lw
			if n > uint64(len(p)-i) {
				return frames, "malformed-frame", fmt.Sprintf("CRYPTO frame at payload byte %d (offset %d): length %d but only %d payload bytes left", start, off, n, len(p)-i)
			}
			frames = append(frames, c09Frame{Typ: 6, Off: off, Len: n, Data: p[i : i+int(n)], OffW: ow, LenW: lw})
			i += int(n)
		default:
			return frames, "bad-frame-type", fmt.Sprintf("frame type 0x%02x at payload byte %d is not PADDING/PING/CRYPTO", p[i], i)
		}
	}
	return frames, "", ""
}

// ---------------------------------------------------------------------------------------
// coverage check

type c09Stats struct {
	NCrypto, NPing, NPadRuns, PadBytes int
	OffW, LenW                         int // bit set of varint widths seen
	Datagrams                          int
	Covered                            int
	Overlap                            bool
	EmptyCrypto                        int
}

func c09Bucket(n int) string {
	switch {
	case n <= 3:
		return fmt.Sprint(n)
	case n <= 7:
		return "4-7"
	case n <= 15:
		return "8-15"
	case n <= 63:
		return "16-63"
	}
	return "64+"
}

func (s c09Stats) fp() string {
	return fmt.Sprintf("c%s p%s z%s ow%x lw%x d%d ov%v e%v", c09Bucket(s.NCrypto), c09Bucket(s.NPing), c09Bucket(s.NPadRuns), s.OffW, s.LenW, s.Datagrams, s.Overlap, s.EmptyCrypto > 0)
}

// c09Check verifies the frame payloads of one flight (or one datagram) against the reference
// bytes ref, whose first byte sits at absolute CRYPTO stream offset base.
//   - every frame is PADDING, PING or CRYPTO and is well-formed;
//   - every CRYPTO range lies within [base, base+len(ref)) (a range that starts below base is
//     shifted, one that ends above is zero-extended / past the end);
//   - its bytes equal the reference at the absolute offset;
//   - (needCover) every byte of ref is covered by at least one CRYPTO frame.
//
// Overlapping ranges are accepted (they are byte-consistent by the previous point).
func c09Check(ref []byte, base uint64, payloads [][]byte, needCover bool) (cls, detail string, st c09Stats) {
	mask := make([]bool, len(ref))
	st.Datagrams = len(payloads)
	end := base + uint64(len(ref))
	for di, p := range payloads {
		frames, c, d := c09Decode(p)
		if c != "" {
			return c, fmt.Sprintf("datagram %d: %s", di, d), st
		}
		for _, f := range frames {
			switch f.Typ {
			case 0:
				st.NPadRuns++
				st.PadBytes += int(f.Len)
			case 1:
				st.NPing++
			case 6:
				st.NCrypto++
				st.OffW |= f.OffW
				st.LenW |= f.LenW
				if f.Len == 0 {
					st.EmptyCrypto++
				}
				if f.Off < base {
					return "range-below-slice", fmt.Sprintf("datagram %d: CRYPTO [%d,+%d) starts below the first byte handed in (absolute offset %d): shifted", di, f.Off, f.Len, base), st
				}
				if f.Off > end || f.Len > end-f.Off {
					return "range-past-end", fmt.Sprintf("datagram %d: CRYPTO [%d,+%d) reaches past the end of the data (absolute end %d): extended", di, f.Off, f.Len, end), st
				}
				lo := int(f.Off - base)
				for k := 0; k < int(f.Len); k++ {
					if f.Data[k] != ref[lo+k] {
						return "byte-mismatch", fmt.Sprintf("datagram %d: CRYPTO [%d,+%d): byte at absolute offset %d is 0x%02x, ClientHello has 0x%02x", di, f.Off, f.Len, f.Off+uint64(k), f.Data[k], ref[lo+k]), st
					}
					if mask[lo+k] {
						st.Overlap = true
					} else {
						mask[lo+k] = true
						st.Covered++
					}
				}
			}
		}
	}
	if needCover && st.Covered != len(ref) {
		first := 0
		for first < len(mask) && mask[first] {
			first++
		}
		return "not-covered", fmt.Sprintf("%d of %d ClientHello bytes are carried by no CRYPTO frame (first missing: absolute offset %d)", len(ref)-st.Covered, len(ref), base+uint64(first)), st
	}
	return "", "", st
}

// c09Safe runs fn and converts a panic into (value, stack).
func c09Safe(fn func()) (panicked bool, val string, stack string) {
	defer func() {
		if r := recover(); r != nil {
			panicked = true
			val = fmt.Sprint(r)
			stack = c09TrimStack(string(debug.Stack()))
		}
	}()
	fn()
	return
}

func c09TrimStack(s string) string {
	lines := strings.Split(s, "\n")
	var keep []string
	for _, ln := range lines {
		if strings.Contains(ln, "uquic.") && !strings.Contains(ln, "c09") {
			keep = append(keep, strings.TrimSpace(ln))
		}
		if len(keep) >= 6 {
			break
		}
	}
	return strings.Join(keep, " <- ")
}

// c09PanicClass maps a panic value onto a stable class for the signature.
func c09PanicClass(v string) string {
	switch {
	case strings.Contains(v, "slice bounds out of range"):
		return "slice-bounds"
	case strings.Contains(v, "index out of range"):
		return "index-range"
	case strings.Contains(v, "makeslice"):
		return "makeslice"
	case strings.Contains(v, "nil pointer"):
		return "nil-deref"
	case strings.Contains(v, "argument to Int"):
		return "rand-int-arg"
	}
	return "other"
}

func c09Hex(b []byte) string {
	if len(b) > 6000 {
		return hex.EncodeToString(b[:3000]) + "..." + fmt.Sprintf("(%d bytes)", len(b))
	}
	return hex.EncodeToString(b)
}

func c09HexAll(ps [][]byte) []string {
	out := make([]string, len(ps))
	for i, p := range ps {
		out[i] = c09Hex(p)
	}
	return out
}

// ---------------------------------------------------------------------------------------
// independent model of QUICCryptoRange (documentation of u_flight_frames.go):
// Offset < 0 counts back from the end; Length 0 = to the end; Length < 0 ends that many bytes
// before the end.  ok=false: the range does not denote a sub-range of the stream.

func c09Resolve(off, length, n int) (start, end int, ok bool) {
	start = off
	if off < 0 {
		start = n + off
	}
	if start < 0 || start > n {
		return 0, 0, false
	}
	if length > 0 {
		end = start + length
	} else {
		end = n + length
	}
	if end > n || end < start {
		return 0, 0, false
	}
	return start, end, true
}

// ---------------------------------------------------------------------------------------
// data generators

func c09Bytes(r *rand.Rand, n int) []byte {
	b := make([]byte, n)
	for i := range b {
		b[i] = byte(r.Uint32())
	}
	if n > 0 && b[0] == 0 {
		b[0] = 0x5a
	}
	return b
}

// c09CHSpec describes one generated ClientHello.
type c09CHSpec struct {
	Target         int // desired total length (0 = natural)
	NFill          int // number of filler extensions
	SNIPos         int // index in the extension list, -1 = absent
	ECHPos         int // index in the extension list, -1 = absent
	SNILen         int // host name length
	ECHLen         int // ECH extension body length
	SessLen        int
	NSuites        int
	OtherNameFirst bool // a non-host_name entry precedes the host name in the server_name_list
}

// c09CHClass names the input classes for which a deviation is reported under its own signature.
func c09CHClass(sp c09CHSpec) string {
	switch {
	case sp.SNIPos >= 0 && sp.SNILen == 0:
		return "|empty-host-name"
	case sp.ECHPos >= 0 && sp.SNIPos < 0:
		return "|ech-without-sni"
	}
	return ""
}

var c09FillTypes = []uint16{5, 10, 11, 13, 16, 18, 23, 27, 35, 43, 45, 51, 57, 0x4469, 0x44cd, 0xff01, 0x0a0a, 0x1a1a, 0xfafa, 21}

// c09MakeCH builds a structurally well-formed ClientHello handshake message and returns it
// together with the positions the scrambler is supposed to find (for evidence only; the
// verdict never depends on them).
func c09MakeCH(r *rand.Rand, sp c09CHSpec) []byte {
	type ext struct {
		typ  uint16
		body []byte
	}
	n := sp.NFill
	total := n
	if sp.SNIPos >= 0 {
		total++
	}
	if sp.ECHPos >= 0 {
		total++
	}
	exts := make([]ext, 0, total)
	fillIdx := []int{}
	sniIdx, echIdx := -1, -1
	if sp.SNIPos >= 0 {
		sniIdx = min(sp.SNIPos, total-1)
	}
	if sp.ECHPos >= 0 {
		echIdx = min(sp.ECHPos, total-1)
		if echIdx == sniIdx {
			echIdx = (sniIdx + 1) % total
		}
	}
	for i := 0; i < total; i++ {
		switch i {
		case sniIdx:
			var body []byte
			listLen := 3 + sp.SNILen
			if sp.OtherNameFirst {
				listLen += 3 + 2
			}
			body = append(body, byte(listLen>>8), byte(listLen))
			if sp.OtherNameFirst {
				body = append(body, 7, 0, 2, 0xAB, 0xCD)
			}
			body = append(body, 0, byte(sp.SNILen>>8), byte(sp.SNILen))
			for k := 0; k < sp.SNILen; k++ {
				body = append(body, byte('a'+r.IntN(26)))
			}
			exts = append(exts, ext{0, body})
		case echIdx:
			exts = append(exts, ext{0xfe0d, c09Bytes(r, sp.ECHLen)})
		default:
			t := c09FillTypes[r.IntN(len(c09FillTypes))]
			exts = append(exts, ext{t, c09Bytes(r, r.IntN(24))})
			fillIdx = append(fillIdx, i)
		}
	}
	sessLen := sp.SessLen
	nSuites := max(sp.NSuites, 1)
	size := func() int {
		s := 4 + 2 + 32 + 1 + sessLen + 2 + 2*nSuites + 2 + 2
		for _, e := range exts {
			s += 4 + len(e.body)
		}
		return s
	}
	if sp.Target > 0 && len(fillIdx) > 0 {
		d := sp.Target - size()
		k := fillIdx[r.IntN(len(fillIdx))]
		if d > 0 {
			exts[k].body = append(exts[k].body, c09Bytes(r, min(d, 65000-len(exts[k].body)))...)
		} else {
			for _, k := range fillIdx {
				if d >= 0 {
					break
				}
				cut := min(-d, len(exts[k].body))
				exts[k].body = exts[k].body[:len(exts[k].body)-cut]
				d += cut
			}
		}
	}
	body := make([]byte, 0, size())
	body = append(body, 1, 0, 0, 0) // type + length placeholder
	body = append(body, 3, 3)
	body = append(body, c09Bytes(r, 32)...)
	body = append(body, byte(sessLen))
	body = append(body, c09Bytes(r, sessLen)...)
	body = append(body, byte(2*nSuites>>8), byte(2*nSuites))
	for i := 0; i < nSuites; i++ {
		body = append(body, 0x13, byte(1+i%3))
	}
	body = append(body, 1, 0)
	extLen := 0
	for _, e := range exts {
		extLen += 4 + len(e.body)
	}
	body = append(body, byte(extLen>>8), byte(extLen))
	for _, e := range exts {
		body = append(body, byte(e.typ>>8), byte(e.typ), byte(len(e.body)>>8), byte(len(e.body)))
		body = append(body, e.body...)
	}
	hl := len(body) - 4
	body[1], body[2], body[3] = byte(hl>>16), byte(hl>>8), byte(hl)
	return body
}

// c09Lens is the ClientHello length lattice of DESIGN.md §4 C09.
var c09Lens = []int{0, 1, 2, 3, 4, 5, 7, 47, 61, 62, 63, 64, 65, 66, 255, 256, 257, 700, 1162, 1200, 1734, 2300, 3500, 4800, 16383, 16384, 16385}

var c09Bases = []uint64{0, 1, 63, 64, 16383, 16384, 1 << 30}
