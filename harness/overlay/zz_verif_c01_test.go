package quic_test

// C01 — stream data arrives intact, in order, exactly once under any network faults.
// Real client + real server over the simulated network, every datagram subject to the case's
// fault schedule, position-dependent payload oracle at the API boundary, H1 pool poisoning on.

import (
	"time"
	"testing/synctest"
	"io"
	"context"
	"bytes"
	"errors"
	"fmt"
	"testing"

	quic "github.com/refraction-networking/uquic"

	"github.com/refraction-networking/uquic/internal/verif/evlog"
	"github.com/refraction-networking/uquic/internal/verif/quicworld"
	"github.com/refraction-networking/uquic/internal/verif/simworld"
	"github.com/refraction-networking/uquic/internal/verif/wiretap"
)

func c01Report(l *evlog.Log) quicworld.Reporter {
	return func(c *evlog.Case, cc *quicworld.ConnCase, r *quicworld.CaseResult) {
		fp := ""
		if r.FaultsApplied > 0 {
			fp = cc.Name
		}
		c.Eval(fp)
		quicworld.TapCounts(l, r)
		l.Count("faults_applied", int64(r.FaultsApplied))
		// Version Negotiation packets and the version field are not authenticated: corruption that hits them
		// can legitimately end the attempt with a VersionNegotiationError (documented consequence, RFC 9000 6.2).
		var vnErr *quic.VersionNegotiationError
		if errors.As(r.DialErr, &vnErr) {
			headerCorruption := cc.Schedule.Rate != nil && cc.Schedule.Rate.PCorrupt > 0
			for _, f := range cc.Schedule.Faults {
				if f.Action.Kind == "flip" && f.Action.Pos > 0 {
					headerCorruption = true
				}
			}
			if headerCorruption {
				l.Count("version_negotiation_failures_after_header_corruption", 1)
				return
			}
		}
		if r.DialErr != nil || r.AcceptErr != nil {
			c.Violation("C01|handshake-failed-under-bounded-faults", fmt.Sprintf("dial: %v; accept: %v", r.DialErr, r.AcceptErr), map[string]any{"router": r.RouterLog})
			return
		}
		l.Count("connections_established", 1)
		tr := r.Transfer
		if tr.ClientCause != nil || tr.ServerCause != nil {
			c.Violation("C01|connection-error-under-bounded-faults", fmt.Sprintf("client: %v; server: %v", tr.ClientCause, tr.ServerCause), map[string]any{"router": r.RouterLog, "outcomes": tr.Outcomes})
		}
		for _, v := range r.Viols {
			sig := v.Sig
			if len(sig) < 4 || sig[:4] != "C01|" {
				sig = "C01|" + sig
			}
			c.Violation(sig, v.Detail, map[string]any{"router": r.RouterLog, "outcomes": tr.Outcomes})
		}
		if tr.Completed {
			l.Count("transfers_completed", 1)
		}
		for _, o := range tr.Outcomes {
			l.Count("stream_bytes_verified", o.Got)
		}
		l.Count("datagrams_verified", int64(tr.DgramsRcvd[0]+tr.DgramsRcvd[1]))
		if r.FaultsApplied > 0 {
			c.Sample("faulted-transfer", map[string]any{"case": cc.Name, "faults_applied": r.FaultsApplied, "virtual_elapsed": tr.Elapsed.String(), "streams": len(tr.Outcomes), "datagrams_rcvd": tr.DgramsRcvd})
		}
	}
}

func TestVerifC01Faults(t *testing.T) {
	l := evlog.Open("C01")
	defer l.Close()
	clients := []quicworld.ClientSel{{Client: "plain"}, {Client: "plain", V2: true}, {Client: "unil"}, {Client: "Chrome_115_IPv4"}, {Client: "Firefox_116A"}, {Client: "Firefox_116A~asym"},
		// a resuming client whose transfer starts in 0-RTT (after a fault-free priming connection)
		{Client: "plain~0rtt"}}
	var cases []*quicworld.ConnCase
	if l.Quick() {
		cases = quicworld.FaultSuite(l, clients, []string{"S1", "S3"}, 8, 2500, 1000, 800)
	} else {
		clients = append(clients, quicworld.ClientSel{Client: "unil", V2: true}, quicworld.ClientSel{Client: "Chrome_146_IPv4"}, quicworld.ClientSel{Client: "Firefox_116C"}, quicworld.ClientSel{Client: "unil~0rtt"})
		cases = quicworld.FaultSuite(l, clients, []string{"S1", "S2", "S3", "S5", "S6"}, 12, 60000, 40000, 12000)
	}
	// control-frame retransmission: small stream-count limits and small fixed windows make the transfer
	// depend on every MAX_STREAMS / MAX_DATA / MAX_STREAM_DATA / STREAMS_BLOCKED round; each of the first
	// datagrams of either direction is dropped once (the transfer must still complete)
	for _, cl := range []string{"plain", "Firefox_116A"} {
		for _, sc := range []string{"S7", "S8", "S9", "S10"} {
			for d := 0; d < 2; d++ {
				for o := 0; o < l.Pick(50, 160); o++ {
					lim := 0
					if sc == "S9" {
						lim = 1
					}
					cases = append(cases, &quicworld.ConnCase{Name: fmt.Sprintf("limits/%s/%s/d%d-o%d-drop", sc, cl, d, o), Client: cl, SmallLimits: sc == "S7" || sc == "S8", StreamLimit: lim, RTTms: 10, ConnIdx: len(cases),
						Schedule: simworld.Schedule{Faults: []simworld.Fault{{Dir: wiretap.Dir(d), Ordinal: o, Action: simworld.Action{Kind: "drop"}}}}, Transfer: quicworld.Scenario(sc, uint64(len(cases)))})
				}
			}
		}
	}
	quicworld.RunSuite(t, l, cases, c01Report(l))
}

// The same oracle under the race detector (the runner builds this job with -race): fewer cases,
// all scenarios, so that retransmission, reassembly, flow control and close paths of both endpoints
// run concurrently with the application goroutines while the detector watches.
func TestVerifC01FaultsRace(t *testing.T) {
	l := evlog.Open("C01")
	defer l.Close()
	clients := []quicworld.ClientSel{{Client: "plain"}, {Client: "plain", V2: true}, {Client: "Chrome_115_IPv4"}, {Client: "Firefox_116A"}}
	cases := quicworld.FaultSuite(l, clients, nil, 0, l.Pick(150, 1500), l.Pick(100, 1000), l.Pick(100, 1000))
	quicworld.RunSuite(t, l, cases, c01Report(l))
}

// "When the path is not dead for longer than the idle timeout, transfers on all streams complete" - also when
// the dead period comes right after a quiet period: both endpoints are silent for Q, then one side starts
// to write while everything sent towards it is lost for B.  Q + B may exceed the idle timeout T, B stays below
// 45 % of it: the writer's idle period restarted when it sent its first ack-eliciting packet after the silence
// (RFC 9000 10.1), so the connection must survive and the transfer must complete.
func TestVerifC01Blackout(t *testing.T) {
	l := evlog.Open("C01")
	defer l.Close()
	type bc struct {
		Name   string `json:"name"`
		Client string `json:"client"`
		Writer string `json:"writer"` // client | server
		TMs    int    `json:"idle_ms"`
		QMs    int    `json:"quiet_ms"`
		BMs    int    `json:"blackout_ms"`
		KB     int    `json:"kb"`
	}
	var cases []bc
	rng := l.Rand("c01blackout")
	for i := 0; i < l.Pick(300, 6000); i++ {
		T := []int{3000, 10000, 30000}[rng.IntN(3)]
		c := bc{Client: []string{"plain", "unil", "Chrome_115_IPv4", "Firefox_116A"}[rng.IntN(4)], Writer: []string{"client", "server"}[rng.IntN(2)], TMs: T,
			QMs: T * (35 + rng.IntN(55)) / 100, KB: []int{1, 20, 200}[rng.IntN(3)]}
		// the writer probes with exponential back-off (PTO, 2 PTO, 4 PTO ...): the first probe after a blackout of
		// B leaves before 2 B + PTO, so B is kept below 45 % of T - then a probe gets through, and is answered,
		// before the idle period that began with the writer's first packet ends
		c.BMs = T * (15 + rng.IntN(30)) / 100
		c.Name = fmt.Sprintf("%04d/%s/%s/T%d-Q%d-B%d/%dk", i, c.Client, c.Writer, c.TMs, c.QMs, c.BMs, c.KB)
		cases = append(cases, c)
	}
	for i, cs := range cases {
		if !l.Mine(i) {
			continue
		}
		c := l.Begin("C01/blackout/"+cs.Name, cs)
		if c == nil {
			continue
		}
		synctest.Test(t, func(t *testing.T) {
			opt, err := quicworld.OptionsFor(&quicworld.ConnCase{Client: cs.Client, RTTms: 10})
			if err != nil {
				c.Violation("C01|harness", err.Error(), nil)
				return
			}
			idle := time.Duration(cs.TMs) * time.Millisecond
			opt.ClientConf.MaxIdleTimeout, opt.ServerConf.MaxIdleTimeout = idle, idle
			w, err := quicworld.New(opt)
			if err != nil {
				c.Violation("C01|harness", err.Error(), nil)
				return
			}
			defer func() {
				w.Close()
				time.Sleep(time.Minute)
			}()
			ctx, cancel := context.WithTimeout(context.Background(), 10*time.Minute)
			defer cancel()
			type acc struct {
				c   *quic.Conn
				err error
			}
			accCh := make(chan acc, 1)
			go func() {
				sc, err := w.Accept(ctx)
				accCh <- acc{sc, err}
			}()
			cc, err := w.Dial(ctx)
			a := <-accCh
			if err != nil || a.err != nil {
				c.Violation("C01|blackout|handshake-failed", fmt.Sprintf("dial %v accept %v", err, a.err), nil)
				return
			}
			sc := a.c
			defer func() {
				cc.CloseWithError(0, "")
				sc.CloseWithError(0, "")
			}()
			writer, reader, toWriter := cc, sc, wiretap.S2C
			if cs.Writer == "server" {
				writer, reader, toWriter = sc, cc, wiretap.C2S
			}
			// the idle timeout the two really negotiated: a fingerprint advertises its own
			neg := idle
			if taps := w.Wire.Snapshot(); len(taps) > 0 {
				w.Wire.Lock()
				for _, tp := range []*wiretap.TPSet{taps[len(taps)-1].ClientTP, taps[len(taps)-1].ServerTP} {
					if tp != nil {
						if v := time.Duration(tp.Int(wiretap.TPMaxIdleTimeout, 0)) * time.Millisecond; v > 0 && v < neg {
							neg = v
						}
					}
				}
				w.Wire.Unlock()
			}
			q, b := neg*time.Duration(cs.QMs)/time.Duration(cs.TMs), neg*time.Duration(cs.BMs)/time.Duration(cs.TMs)
			time.Sleep(500 * time.Millisecond) // handshake done, tickets, connection IDs
			if q > 600*time.Millisecond {
				time.Sleep(q - 500*time.Millisecond) // the quiet period counts from the last packets of the handshake
			}
			if cc.Context().Err() != nil || sc.Context().Err() != nil {
				c.Violation("C01|blackout|died-in-quiet-period", fmt.Sprintf("quiet for %s with idle timeout %s: client %v server %v", q, neg, context.Cause(cc.Context()), context.Cause(sc.Context())), nil)
				return
			}
			payload := make([]byte, cs.KB<<10)
			for i := range payload {
				payload[i] = byte(i*13 + 5)
			}
			w.Router.SetBlackhole(toWriter, true)
			errc := make(chan error, 2)
			go func() {
				s, err := writer.OpenUniStreamSync(ctx)
				if err != nil {
					errc <- fmt.Errorf("open: %w", err)
					return
				}
				if _, err := s.Write(payload); err != nil {
					errc <- fmt.Errorf("write: %w", err)
					return
				}
				errc <- s.Close()
			}()
			go func() {
				s, err := reader.AcceptUniStream(ctx)
				if err != nil {
					errc <- fmt.Errorf("accept: %w", err)
					return
				}
				got, err := io.ReadAll(s)
				if err == nil && !bytes.Equal(got, payload) {
					err = fmt.Errorf("%d bytes read, %d written, or different content", len(got), len(payload))
				}
				errc <- err
			}()
			time.Sleep(b)
			w.Router.SetBlackhole(toWriter, false)
			c.Eval(fmt.Sprintf("%s|%s|T%d|kb%d|q%d|b%d", cs.Client, cs.Writer, cs.TMs, cs.KB, cs.QMs*10/cs.TMs, cs.BMs*10/cs.TMs))
			for i := 0; i < 2; i++ {
				if err := <-errc; err != nil {
					c.Violation("C01|blackout|transfer-failed-although-path-dead-shorter-than-idle-timeout",
						fmt.Sprintf("quiet %s, then %d kB written by the %s while nothing reached it for %s (idle timeout %s): %v; writer's connection: %v", q, cs.KB, cs.Writer, b, neg, err, context.Cause(writer.Context())), nil)
					return
				}
			}
			l.Count("blackout_transfers_completed", 1)
		})
		c.End()
	}
}
