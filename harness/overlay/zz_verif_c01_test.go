package quic_test

// C01 — stream data arrives intact, in order, exactly once under any network faults.
// Real client + real server over the simulated network, every datagram subject to the case's
// fault schedule, position-dependent payload oracle at the API boundary, H1 pool poisoning on.

import (
	"errors"
	"fmt"
	"testing"

	quic "github.com/refraction-networking/uquic"

	"github.com/refraction-networking/uquic/internal/verif/evlog"
	"github.com/refraction-networking/uquic/internal/verif/quicworld"
	"github.com/refraction-networking/uquic/internal/verif/simworld"
	"github.com/refraction-networking/uquic/internal/verif/wiretap"
)

func c01Report(l *evlog.Log) quicworld.Reporter {
	return func(c *evlog.Case, cc *quicworld.ConnCase, r *quicworld.CaseResult) {
		fp := ""
		if r.FaultsApplied > 0 {
			fp = cc.Name
		}
		c.Eval(fp)
		quicworld.TapCounts(l, r)
		l.Count("faults_applied", int64(r.FaultsApplied))
		// Version Negotiation packets and the version field are not authenticated: corruption that hits them
		// can legitimately end the attempt with a VersionNegotiationError (documented consequence, RFC 9000 6.2).
		var vnErr *quic.VersionNegotiationError
		if errors.As(r.DialErr, &vnErr) {
			headerCorruption := cc.Schedule.Rate != nil && cc.Schedule.Rate.PCorrupt > 0
			for _, f := range cc.Schedule.Faults {
				if f.Action.Kind == "flip" && f.Action.Pos > 0 {
					headerCorruption = true
				}
			}
			if headerCorruption {
				l.Count("version_negotiation_failures_after_header_corruption", 1)
				return
			}
		}
		if r.DialErr != nil || r.AcceptErr != nil {
			c.Violation("C01|handshake-failed-under-bounded-faults", fmt.Sprintf("dial: %v; accept: %v", r.DialErr, r.AcceptErr), map[string]any{"router": r.RouterLog})
			return
		}
		l.Count("connections_established", 1)
		tr := r.Transfer
		if tr.ClientCause != nil || tr.ServerCause != nil {
			c.Violation("C01|connection-error-under-bounded-faults", fmt.Sprintf("client: %v; server: %v", tr.ClientCause, tr.ServerCause), map[string]any{"router": r.RouterLog, "outcomes": tr.Outcomes})
		}
		for _, v := range r.Viols {
			sig := v.Sig
			if len(sig) < 4 || sig[:4] != "C01|" {
				sig = "C01|" + sig
			}
			c.Violation(sig, v.Detail, map[string]any{"router": r.RouterLog, "outcomes": tr.Outcomes})
		}
		if tr.Completed {
			l.Count("transfers_completed", 1)
		}
		for _, o := range tr.Outcomes {
			l.Count("stream_bytes_verified", o.Got)
		}
		l.Count("datagrams_verified", int64(tr.DgramsRcvd[0]+tr.DgramsRcvd[1]))
		if r.FaultsApplied > 0 {
			c.Sample("faulted-transfer", map[string]any{"case": cc.Name, "faults_applied": r.FaultsApplied, "virtual_elapsed": tr.Elapsed.String(), "streams": len(tr.Outcomes), "datagrams_rcvd": tr.DgramsRcvd})
		}
	}
}

func TestVerifC01Faults(t *testing.T) {
	l := evlog.Open("C01")
	defer l.Close()
	clients := []quicworld.ClientSel{{Client: "plain"}, {Client: "plain", V2: true}, {Client: "unil"}, {Client: "Chrome_115_IPv4"}, {Client: "Firefox_116A"}, {Client: "Firefox_116A~asym"},
		// a resuming client whose transfer starts in 0-RTT (after a fault-free priming connection)
		{Client: "plain~0rtt"}}
	var cases []*quicworld.ConnCase
	if l.Quick() {
		cases = quicworld.FaultSuite(l, clients, []string{"S1", "S3"}, 8, 2500, 1000, 800)
	} else {
		clients = append(clients, quicworld.ClientSel{Client: "unil", V2: true}, quicworld.ClientSel{Client: "Chrome_146_IPv4"}, quicworld.ClientSel{Client: "Firefox_116C"}, quicworld.ClientSel{Client: "unil~0rtt"})
		cases = quicworld.FaultSuite(l, clients, []string{"S1", "S2", "S3", "S5", "S6"}, 12, 60000, 40000, 12000)
	}
	// control-frame retransmission: small stream-count limits and small fixed windows make the transfer
	// depend on every MAX_STREAMS / MAX_DATA / MAX_STREAM_DATA / STREAMS_BLOCKED round; each of the first
	// datagrams of either direction is dropped once (the transfer must still complete)
	for _, cl := range []string{"plain", "Firefox_116A"} {
		for _, sc := range []string{"S7", "S8", "S9", "S10"} {
			for d := 0; d < 2; d++ {
				for o := 0; o < l.Pick(50, 160); o++ {
					lim := 0
					if sc == "S9" {
						lim = 1
					}
					cases = append(cases, &quicworld.ConnCase{Name: fmt.Sprintf("limits/%s/%s/d%d-o%d-drop", sc, cl, d, o), Client: cl, SmallLimits: sc == "S7" || sc == "S8", StreamLimit: lim, RTTms: 10, ConnIdx: len(cases),
						Schedule: simworld.Schedule{Faults: []simworld.Fault{{Dir: wiretap.Dir(d), Ordinal: o, Action: simworld.Action{Kind: "drop"}}}}, Transfer: quicworld.Scenario(sc, uint64(len(cases)))})
				}
			}
		}
	}
	quicworld.RunSuite(t, l, cases, c01Report(l))
}

// The same oracle under the race detector (the runner builds this job with -race): fewer cases,
// all scenarios, so that retransmission, reassembly, flow control and close paths of both endpoints
// run concurrently with the application goroutines while the detector watches.
func TestVerifC01FaultsRace(t *testing.T) {
	l := evlog.Open("C01")
	defer l.Close()
	clients := []quicworld.ClientSel{{Client: "plain"}, {Client: "plain", V2: true}, {Client: "Chrome_115_IPv4"}, {Client: "Firefox_116A"}}
	cases := quicworld.FaultSuite(l, clients, nil, 0, l.Pick(150, 1500), l.Pick(100, 1000), l.Pick(100, 1000))
	quicworld.RunSuite(t, l, cases, c01Report(l))
}
