package quic

// C15: "waiting callers are served in arrival order when credit arrives" - for every instant at which the
// credit can arrive.  OpenStreamSync releases the map's lock before it parks on its wake-up channel; an
// event that is handled exactly in that window (schedule point streams.openSync.beforeWait, H2) must not be
// lost.  Here the event is made to happen deterministically inside the window of a chosen caller: the
// schedule point's action itself (running in that caller's goroutine, no lock held) delivers a
// MAX_STREAMS frame, cancels the caller's context, or closes the map.  Inside a synctest bubble
// "hangs" is decidable: after synctest.Wait every caller that could be served must have returned.

import (
	"context"
	"errors"
	"fmt"
	"sync"
	"testing"
	"testing/synctest"

	"github.com/refraction-networking/uquic/internal/flowcontrol"
	"github.com/refraction-networking/uquic/internal/protocol"
	"github.com/refraction-networking/uquic/internal/utils"
	"github.com/refraction-networking/uquic/internal/verif/evlog"
	"github.com/refraction-networking/uquic/internal/verifhook"
	"github.com/refraction-networking/uquic/internal/wire"
)

type c15wCaseIn struct {
	Server  bool   `json:"server"`
	Uni     bool   `json:"uni"`
	Limit   int    `json:"limit"`   // the peer's initial limit (streams below it are opened first, without blocking)
	Callers int    `json:"callers"` // blocked OpenStreamSync callers, started one at a time
	At      int    `json:"at"`      // the caller (arrival order, 0-based) in whose window the event happens
	Event   string `json:"event"`   // credit | credit-same-then-more | cancel | close
	Credit  int    `json:"credit"`  // streams granted by the event
}

func TestVerifC15WakeWindow(t *testing.T) {
	if !verifhook.Enabled {
		t.Fatal("built without -tags verif")
	}
	l := evlog.Open("C15")
	defer l.Close()
	rng := l.Rand("c15window")
	n := l.Pick(3000, 60000)
	var cases []c15wCaseIn
	for i := 0; i < n; i++ {
		cs := c15wCaseIn{Server: rng.IntN(2) == 0, Uni: rng.IntN(2) == 0, Limit: rng.IntN(4), Callers: 1 + rng.IntN(4),
			Event: []string{"credit", "credit", "credit-same-then-more", "cancel", "close", "accept-stream", "accept-close", "accept-cancel"}[rng.IntN(8)]}
		cs.At = rng.IntN(cs.Callers)
		cs.Credit = 1 + rng.IntN(cs.Callers+1)
		cases = append(cases, cs)
	}
	const batch = 100
	for bi := 0; bi*batch < len(cases); bi++ {
		if !l.Mine(bi) {
			continue
		}
		c := l.Begin(fmt.Sprintf("C15/window/batch%d", bi), cases[bi*batch:min(len(cases), (bi+1)*batch)])
		if c == nil {
			continue
		}
		for _, cs := range cases[bi*batch : min(len(cases), (bi+1)*batch)] {
			var sig, detail string
			synctest.Test(t, func(t *testing.T) {
				if len(cs.Event) > 7 && cs.Event[:7] == "accept-" {
					sig, detail = runC15AcceptWindow(&cs)
				} else {
					sig, detail = runC15Window(&cs)
				}
			})
			c.Eval(fmt.Sprintf("window s%v u%v l%d c%d at%d %s cr%d", cs.Server, cs.Uni, cs.Limit, cs.Callers, cs.At, cs.Event, min(cs.Credit, 3)))
			if sig != "" {
				c.Violation(sig, detail, map[string]any{"case": cs})
			}
			l.Count("window_events_"+cs.Event, 1)
		}
		c.End()
	}
	for k, v := range verifhook.Hits() {
		if k == "streams.openSync.beforeWait" || k == "streams.accept.beforeWait" {
			l.Count("hook_hits_"+k, int64(v))
		}
	}
}

func runC15Window(cs *c15wCaseIn) (sig, detail string) {
	pers := protocol.PerspectiveClient
	if cs.Server {
		pers = protocol.PerspectiveServer
	}
	rtt := &utils.RTTStats{}
	cfc := flowcontrol.NewConnectionFlowController(1<<30, 1<<30, func(protocol.ByteCount) bool { return true }, rtt, utils.DefaultLogger)
	var fmu sync.Mutex
	var blockedFrames []uint64
	m := newStreamsMap(context.Background(), &c15Sender{&c15Run{}},
		func(f wire.Frame) {
			if b, ok := f.(*wire.StreamsBlockedFrame); ok {
				fmu.Lock()
				blockedFrames = append(blockedFrames, uint64(b.StreamLimit))
				fmu.Unlock()
			}
		},
		func(id protocol.StreamID) flowcontrol.StreamFlowController {
			return flowcontrol.NewStreamFlowController(id, cfc, 1<<16, 1<<16, 1<<16, rtt, utils.DefaultLogger)
		}, 10, 10, pers)
	ty := protocol.StreamTypeBidi
	if cs.Uni {
		ty = protocol.StreamTypeUni
	}
	grant := func(n int) { m.HandleMaxStreamsFrame(&wire.MaxStreamsFrame{Type: ty, MaxStreamNum: protocol.StreamNum(n)}) }
	tp := &wire.TransportParameters{MaxBidiStreamNum: protocol.StreamNum(cs.Limit), MaxUniStreamNum: protocol.StreamNum(cs.Limit)}
	m.HandleTransportParameters(tp)
	open := func(ctx context.Context) (protocol.StreamID, error) {
		if cs.Uni {
			s, err := m.OpenUniStreamSync(ctx)
			if err != nil {
				return 0, err
			}
			return s.StreamID(), nil
		}
		s, err := m.OpenStreamSync(ctx)
		if err != nil {
			return 0, err
		}
		return s.StreamID(), nil
	}
	first := protocol.StreamID(0)
	if cs.Server {
		first = 1
	}
	if cs.Uni {
		first += 2
	}
	for i := 0; i < cs.Limit; i++ {
		id, err := open(context.Background())
		if err != nil || id != first+protocol.StreamID(4*i) {
			return "C15|window|harness", fmt.Sprintf("stream %d within the limit: id %d err %v", i, id, err)
		}
	}
	type ret struct {
		id  protocol.StreamID
		err error
		ok  bool
	}
	rets := make([]ret, cs.Callers)
	ctxs := make([]context.Context, cs.Callers)
	cancels := make([]context.CancelFunc, cs.Callers)
	closeErr := errors.New("c15: closed in the window")
	var target uint64 // goroutine of the caller in whose window the event happens
	fired := false
	verifhook.SetAction("streams.openSync.beforeWait", func(string) {
		if fired || c15GoID() != target {
			return
		}
		fired = true
		switch cs.Event {
		case "credit":
			grant(cs.Limit + cs.Credit)
		case "credit-same-then-more":
			grant(cs.Limit) // a retransmitted MAX_STREAMS that changes nothing
			grant(cs.Limit + cs.Credit)
		case "cancel":
			cancels[cs.At]()
			grant(cs.Limit + cs.Credit)
		case "close":
			m.CloseWithError(closeErr)
		}
	})
	defer verifhook.ClearActions()
	var wg sync.WaitGroup
	for i := 0; i < cs.Callers; i++ {
		ctxs[i], cancels[i] = context.WithCancel(context.Background())
		defer cancels[i]()
		wg.Add(1)
		started := make(chan struct{})
		go func() {
			defer wg.Done()
			if i == cs.At {
				target = c15GoID()
			}
			close(started)
			id, err := open(ctxs[i])
			rets[i] = ret{id, err, true}
		}()
		<-started
		synctest.Wait() // caller i is durably blocked (or has returned) before caller i+1 arrives
	}
	synctest.Wait()
	if !fired {
		return "C15|window|harness", "the schedule point was never reached by the chosen caller"
	}
	// ---- expectation: arrival order, as many as the credit allows
	next := first + protocol.StreamID(4*cs.Limit)
	served := 0
	for i := 0; i < cs.Callers; i++ {
		r := rets[i]
		switch {
		case cs.Event == "close":
			if !r.ok {
				sig, detail = "C15|window|caller-hangs-after-close", fmt.Sprintf("caller %d still blocked after the map was closed in caller %d's window", i, cs.At)
			} else if !errors.Is(r.err, closeErr) && i >= cs.At {
				sig, detail = "C15|window|wrong-result-after-close", fmt.Sprintf("caller %d returned id %d err %v", i, r.id, r.err)
			}
		case cs.Event == "cancel" && i == cs.At:
			if !r.ok {
				sig, detail = "C15|window|cancelled-caller-hangs", fmt.Sprintf("caller %d was cancelled in its own window and still blocks", i)
			} else if r.err == nil {
				// the cancelled caller may legitimately win the race for the credit that arrived with the cancellation
				if r.id != next {
					sig, detail = "C15|window|out-of-order", fmt.Sprintf("caller %d got stream %d, next in order is %d", i, r.id, next)
				}
				next += 4
				served++
			} else if !errors.Is(r.err, context.Canceled) {
				sig, detail = "C15|window|wrong-error", fmt.Sprintf("cancelled caller %d returned %v", i, r.err)
			}
		case served < cs.Credit:
			if !r.ok {
				sig, detail = "C15|window|waiting-caller-not-served", fmt.Sprintf("the limit was raised to %d in caller %d's window (before it parked); caller %d (arrival order) is still blocked although stream %d is available", cs.Limit+cs.Credit, cs.At, i, next)
			} else if r.err != nil || r.id != next {
				sig, detail = "C15|window|out-of-order", fmt.Sprintf("caller %d returned stream %d err %v, next in arrival order is %d", i, r.id, r.err, next)
			}
			next += 4
			served++
		default:
			if r.ok {
				sig, detail = "C15|window|served-beyond-limit", fmt.Sprintf("caller %d returned stream %d err %v although the limit %d is used up", i, r.id, r.err, cs.Limit+cs.Credit)
			}
		}
		if sig != "" {
			break
		}
	}
	// let everybody go
	if cs.Event != "close" { // the connection closes its map once
		m.CloseWithError(errors.New("c15: end of case"))
	}
	for i := range cancels {
		cancels[i]()
	}
	wg.Wait()
	return sig, detail
}

// runC15AcceptWindow: one AcceptStream / AcceptUniStream caller; exactly in its window (lock released, not
// yet parked) the peer opens cs.Credit streams with one frame, the map is closed, or the context is cancelled.
func runC15AcceptWindow(cs *c15wCaseIn) (sig, detail string) {
	pers := protocol.PerspectiveClient
	if cs.Server {
		pers = protocol.PerspectiveServer
	}
	rtt := &utils.RTTStats{}
	cfc := flowcontrol.NewConnectionFlowController(1<<30, 1<<30, func(protocol.ByteCount) bool { return true }, rtt, utils.DefaultLogger)
	m := newStreamsMap(context.Background(), &c15Sender{&c15Run{}}, func(wire.Frame) {},
		func(id protocol.StreamID) flowcontrol.StreamFlowController {
			return flowcontrol.NewStreamFlowController(id, cfc, 1<<16, 1<<16, 1<<16, rtt, utils.DefaultLogger)
		}, 10, 10, pers)
	first := protocol.StreamID(1) // opened by the peer
	if cs.Server {
		first = 0
	}
	if cs.Uni {
		first += 2
	}
	accept := func(ctx context.Context) (protocol.StreamID, error) {
		if cs.Uni {
			s, err := m.AcceptUniStream(ctx)
			if err != nil {
				return 0, err
			}
			return s.StreamID(), nil
		}
		s, err := m.AcceptStream(ctx)
		if err != nil {
			return 0, err
		}
		return s.StreamID(), nil
	}
	closeErr := errors.New("c15: closed in the window")
	ctx, cancel := context.WithCancel(context.Background())
	defer cancel()
	var target uint64
	fired := false
	var frameErr error
	verifhook.SetAction("streams.accept.beforeWait", func(string) {
		if fired || c15GoID() != target {
			return
		}
		fired = true
		switch cs.Event {
		case "accept-stream":
			// one frame naming the highest of cs.Credit new streams opens all of them
			frameErr = m.HandleStreamFrame(&wire.StreamFrame{StreamID: first + protocol.StreamID(4*(cs.Credit-1)), Data: []byte("x")}, 0)
		case "accept-close":
			m.CloseWithError(closeErr)
		case "accept-cancel":
			cancel()
		}
	})
	defer verifhook.ClearActions()
	type ret struct {
		id  protocol.StreamID
		err error
		ok  bool
	}
	var r ret
	var wg sync.WaitGroup
	wg.Add(1)
	started := make(chan struct{})
	go func() {
		defer wg.Done()
		target = c15GoID()
		close(started)
		id, err := accept(ctx)
		r = ret{id, err, true}
	}()
	<-started
	synctest.Wait()
	switch {
	case !fired:
		sig, detail = "C15|window|harness", "the accept schedule point was never reached"
	case frameErr != nil:
		sig, detail = "C15|window|harness", fmt.Sprintf("frame within the limit rejected: %v", frameErr)
	case !r.ok:
		sig, detail = "C15|window|acceptor-hangs|"+cs.Event, fmt.Sprintf("event %s happened in the acceptor's window (lock released, not yet parked); the acceptor is still blocked", cs.Event)
	case cs.Event == "accept-stream" && (r.err != nil || r.id != first):
		sig, detail = "C15|window|wrong-accept", fmt.Sprintf("acceptor returned stream %d err %v, want stream %d", r.id, r.err, first)
	case cs.Event == "accept-close" && !errors.Is(r.err, closeErr):
		sig, detail = "C15|window|wrong-accept", fmt.Sprintf("acceptor returned stream %d err %v after close", r.id, r.err)
	case cs.Event == "accept-cancel" && !errors.Is(r.err, context.Canceled):
		sig, detail = "C15|window|wrong-accept", fmt.Sprintf("acceptor returned stream %d err %v after cancellation", r.id, r.err)
	}
	if sig == "" && cs.Event == "accept-stream" {
		// the remaining streams are handed out exactly once each, in ID order, without blocking
		for i := 1; i < cs.Credit; i++ {
			actx, acancel := context.WithCancel(context.Background())
			acancel()
			id, err := accept(context.Background())
			if err != nil || id != first+protocol.StreamID(4*i) {
				sig, detail = "C15|window|wrong-accept", fmt.Sprintf("accept %d returned stream %d err %v, want stream %d", i, id, err, first+protocol.StreamID(4*i))
				break
			}
			_ = actx
		}
	}
	if cs.Event != "accept-close" {
		m.CloseWithError(errors.New("c15: end of case"))
	}
	cancel()
	wg.Wait()
	return sig, detail
}
