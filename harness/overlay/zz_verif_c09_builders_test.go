package quic

// C09 monitors for the uQUIC frame builders called directly:
//   TestVerifC09Frames  — QUICFrames layouts that tile their slice, Build / BuildForDatagram
//   TestVerifC09Random  — QUICRandomFrames / QUICMultiDatagramFrames parameter grid × draws
//   TestVerifC09Flight  — QUICFlightFrames / QUICRandomFlightFrames range lists at BuildFlight
// (the same flight plans go through uPacketPacker in zz_verif_c09_packer_test.go).

import (
	"fmt"
	"math/rand/v2"
	"sync"
	"testing"

	"github.com/refraction-networking/uquic/internal/verif/evlog"
)

// c09Rep deduplicates violations per process and signature: a failing configuration fails for
// most of its 2000 draws, and the case log keeps only the first 200 violation records, so a flood
// under one signature must not crowd out another signature.  At most 2 records per signature and
// case and 6 per signature and process are written; every occurrence is counted.
type c09Rep struct {
	c    *evlog.Case
	seen map[string]int
}

var (
	c09SeenMu  sync.Mutex
	c09SeenAll = map[string]int{}
)

func newC09Rep(c *evlog.Case) *c09Rep { return &c09Rep{c: c, seen: map[string]int{}} }

func (r *c09Rep) viol(sig, detail string, trace any) {
	r.seen[sig]++
	r.c.Count("violations_raw", 1)
	c09SeenMu.Lock()
	c09SeenAll[sig]++
	n := c09SeenAll[sig]
	c09SeenMu.Unlock()
	if r.seen[sig] > 2 || n > 6 {
		return
	}
	r.c.Violation(sig, detail, trace)
}

// c09Call runs one builder call under recover and applies the per-datagram oracle.
// Returns the outcome class ("ok", "rejected", "viol") and the statistics of the output.
func c09Call(rp *c09Rep, comp, inClass string, data []byte, base uint64, needCover bool, trace func() map[string]any, call func() ([]byte, error)) (string, c09Stats, []byte) {
	var out []byte
	var err error
	if pan, val, stack := c09Safe(func() { out, err = call() }); pan {
		tr := trace()
		tr["panic"] = val
		tr["stack"] = stack
		rp.viol("C09|"+comp+"|panic|"+c09PanicClass(val)+inClass, "builder panicked: "+val, tr)
		return "viol", c09Stats{}, nil
	}
	if err != nil {
		rp.c.Count("rejected_with_error", 1)
		return "rejected", c09Stats{}, nil
	}
	cls, detail, st := c09Check(data, base, [][]byte{out}, needCover)
	if cls != "" {
		tr := trace()
		tr["payload"] = c09Hex(out)
		tr["data"] = c09Hex(data)
		tr["base"] = base
		rp.viol("C09|"+comp+"|"+cls+inClass, detail, tr)
		return "viol", st, out
	}
	return "ok", st, out
}

func c09CountStats(l interface{ Count(string, int64) }, st c09Stats) {
	l.Count("crypto_frames", int64(st.NCrypto))
	l.Count("ping_frames", int64(st.NPing))
	l.Count("padding_runs", int64(st.NPadRuns))
	l.Count("bytes_compared", int64(st.Covered))
	if st.Overlap {
		l.Count("outputs_with_overlap", 1)
	}
	if st.EmptyCrypto > 0 {
		l.Count("empty_crypto_frames", int64(st.EmptyCrypto))
	}
	if st.OffW&4 != 0 || st.OffW&8 != 0 {
		l.Count("offsets_4_or_8_byte_varint", 1)
	}
	if st.LenW&4 != 0 {
		l.Count("lengths_4_byte_varint", 1)
	}
}

// ---------------------------------------------------------------------------------------
// (1) QUICFrames

type c09Tile struct{ Off, Len int } // Len as written in the layout (0 = "to the end")

func c09FramesDesc(qfs QUICFrames) []string {
	out := make([]string, len(qfs))
	for i, f := range qfs {
		switch v := f.(type) {
		case QUICFrameCrypto:
			out[i] = fmt.Sprintf("C{%d,%d}", v.Offset, v.Length)
		case QUICFramePadding:
			out[i] = fmt.Sprintf("Z{%d}", v.Length)
		case QUICFramePing:
			out[i] = "P"
		default:
			out[i] = fmt.Sprintf("%T", f)
		}
	}
	return out
}

// c09TilingLayout returns a QUICFrames layout whose CRYPTO entries tile [0,n): cuts are the
// interior cut points (strictly increasing, in (0,n)); lastAuto writes the tile that ends at n
// with Length 0; perm is the wire order; extra non-CRYPTO frames are inserted at random places.
func c09TilingLayout(n int, cuts []int, lastAuto bool, perm []int, extras []QUICFrame, r *rand.Rand) QUICFrames {
	bounds := append(append([]int{0}, cuts...), n)
	tiles := make([]QUICFrame, 0, len(bounds)-1)
	for i := 0; i+1 < len(bounds); i++ {
		ln := bounds[i+1] - bounds[i]
		if i+2 == len(bounds) && (lastAuto || ln == 0) {
			ln = 0
		}
		tiles = append(tiles, QUICFrameCrypto{Offset: bounds[i], Length: ln})
	}
	qfs := make(QUICFrames, 0, len(tiles)+len(extras))
	for _, p := range perm {
		qfs = append(qfs, tiles[p])
	}
	for _, e := range extras {
		at := 0
		if r != nil {
			at = r.IntN(len(qfs) + 1)
		}
		qfs = append(qfs, nil)
		copy(qfs[at+1:], qfs[at:])
		qfs[at] = e
	}
	return qfs
}

func c09Perms(k int) [][]int {
	var out [][]int
	var rec func(cur []int, used int)
	rec = func(cur []int, used int) {
		if len(cur) == k {
			out = append(out, append([]int(nil), cur...))
			return
		}
		for i := 0; i < k; i++ {
			if used&(1<<i) == 0 {
				rec(append(cur, i), used|1<<i)
			}
		}
	}
	rec(nil, 0)
	return out
}

func c09RunLayout(c *evlog.Case, rp *c09Rep, qfs QUICFrames, data []byte, r *rand.Rand) {
	for bi, base := range c09Bases {
		idx := bi % 3
		trace := func() map[string]any {
			return map[string]any{"layout": c09FramesDesc(qfs), "len": len(data), "datagramIdx": idx}
		}
		oc, st, _ := c09Call(rp, "quicframes", "", data, base, true, trace, func() ([]byte, error) {
			return qfs.BuildForDatagram(idx, data, base)
		})
		c09CountStats(c, st)
		fp := ""
		if len(qfs) > 0 {
			fp = fmt.Sprintf("qf %s %s b%d", oc, st.fp(), bi)
		}
		c.Eval(fp)
	}
	oc, st, _ := c09Call(rp, "quicframes", "|build", data, 0, true, func() map[string]any {
		return map[string]any{"layout": c09FramesDesc(qfs), "len": len(data), "via": "Build"}
	}, func() ([]byte, error) { return qfs.Build(data) })
	c.Eval(fmt.Sprintf("qf-build %s %s", oc, st.fp()))
}

func TestVerifC09Frames(t *testing.T) {
	l := evlog.Open("C09")
	defer l.Close()
	idx := 0

	// ---- exhaustive: every composition of n <= 5 (6 thorough) bytes, every wire order,
	// final tile explicit / "to the end", with and without PING/PADDING around
	maxN := l.Pick(5, 6)
	for n := 0; n <= maxN; n++ {
		if !l.Mine(idx) {
			idx++
			continue
		}
		idx++
		id := fmt.Sprintf("C09/frames/exh/len%d", n)
		c := l.Begin(id, map[string]any{"len": n})
		if c == nil {
			continue
		}
		rp := newC09Rep(c)
		rng := l.Rand(id)
		data := c09Bytes(rng, n)
		layouts := 0
		for m := 0; m < 1<<max(n-1, 0); m++ {
			var cuts []int
			for b := 0; b < n-1; b++ {
				if m&(1<<b) != 0 {
					cuts = append(cuts, b+1)
				}
			}
			for _, perm := range c09Perms(len(cuts) + 1) {
				for _, auto := range []bool{false, true} {
					c09RunLayout(c, rp, c09TilingLayout(n, cuts, auto, perm, nil, nil), data, rng)
					ex := []QUICFrame{QUICFramePing{}, QUICFramePadding{Length: 1 + rng.IntN(3)}, QUICFramePadding{Length: 0}}
					c09RunLayout(c, rp, c09TilingLayout(n, cuts, auto, perm, ex[:1+rng.IntN(3)], rng), data, rng)
					layouts += 2
				}
			}
		}
		// the degenerate layouts of the empty slice and the empty layout
		c09RunLayout(c, rp, QUICFrames{}, data, rng)
		c09RunLayout(c, rp, nil, data, rng)
		if n == 0 {
			c09RunLayout(c, rp, QUICFrames{QUICFramePing{}}, data, rng)
			c09RunLayout(c, rp, QUICFrames{QUICFramePadding{Length: 7}}, data, rng)
		}
		c.Count("quicframes_layouts", int64(layouts+2))
		c.Sample("quicframes-exhaustive", map[string]any{"len": n, "layouts": layouts + 2, "bases": c09Bases})
		c.End()
	}

	// ---- random tilings of longer slices
	nBatch := l.Pick(300, 6000)
	const per = 60
	for bi := 0; bi < nBatch; bi++ {
		if !l.Mine(idx) {
			idx++
			continue
		}
		idx++
		id := fmt.Sprintf("C09/frames/rand/%05d", bi)
		c := l.Begin(id, map[string]any{"batch": bi, "layouts": per})
		if c == nil {
			continue
		}
		rp := newC09Rep(c)
		rng := l.Rand(id)
		for k := 0; k < per; k++ {
			n := c09Lens[rng.IntN(len(c09Lens))]
			if rng.IntN(3) == 0 {
				n = rng.IntN(1500)
			}
			data := c09Bytes(rng, n)
			kk := 1 + rng.IntN(5)
			if rng.IntN(4) == 0 {
				kk = 1 + rng.IntN(40)
			}
			kk = min(kk, max(n, 1))
			cutSet := map[int]bool{}
			for len(cutSet) < kk-1 {
				var p int
				switch rng.IntN(4) {
				case 0: // near a varint boundary of the length / offset
					p = []int{1, 63, 64, 65, 255, 256, 16383, 16384}[rng.IntN(8)]
				case 1:
					p = n - 1 - rng.IntN(3)
				default:
					p = 1 + rng.IntN(max(n-1, 1))
				}
				if p > 0 && p < n {
					cutSet[p] = true
				} else if n > 1 {
					cutSet[1+rng.IntN(n-1)] = true
				}
			}
			cuts := make([]int, 0, len(cutSet))
			for p := range cutSet {
				cuts = append(cuts, p)
			}
			sortInts(cuts)
			perm := rng.Perm(len(cuts) + 1)
			if rng.IntN(2) == 0 {
				for i := range perm {
					perm[i] = i
				}
			}
			var ex []QUICFrame
			for e := rng.IntN(5); e > 0; e-- {
				if rng.IntN(2) == 0 {
					ex = append(ex, QUICFramePing{})
				} else {
					ex = append(ex, QUICFramePadding{Length: []int{0, 1, 2, 17, 300, 1200}[rng.IntN(6)]})
				}
			}
			c09RunLayout(c, rp, c09TilingLayout(n, cuts, rng.IntN(2) == 0, perm, ex, rng), data, rng)
			c.Count("quicframes_layouts", 1)
		}
		c.End()
	}
}

func sortInts(a []int) {
	for i := 1; i < len(a); i++ {
		for j := i; j > 0 && a[j] < a[j-1]; j-- {
			a[j], a[j-1] = a[j-1], a[j]
		}
	}
}

// ---------------------------------------------------------------------------------------
// (2) QUICRandomFrames / QUICMultiDatagramFrames

var (
	c09PingPairs   = [][2]uint8{{0, 0}, {0, 1}, {1, 1}, {1, 2}, {0, 4}, {1, 4}, {3, 2}, {0, 255}, {255, 255}, {254, 255}, {255, 0}, {7, 8}}
	c09CryptoPairs = [][2]uint8{{0, 0}, {0, 5}, {1, 1}, {1, 2}, {1, 0}, {2, 2}, {2, 3}, {2, 5}, {6, 14}, {1, 255}, {255, 255}, {100, 101}, {3, 3}, {5, 2}, {64, 66}}
	c09PadPairs    = [][2]uint8{{0, 0}, {1, 1}, {1, 2}, {2, 6}, {0, 3}, {3, 1}, {1, 255}, {255, 255}, {2, 2}, {16, 17}}
	c09LenDeltas   = []int{-3, -1, 0, 1, 2, 3, 4, 7, 16, 64}
)

// c09RandCfg draws one QUICRandomFrames configuration.  natural is the size of the plain
// single-CRYPTO-frame encoding of the data, so that Length can be put below / at / above it.
func c09RandCfg(r *rand.Rand, natural int, allowZeroCrypto bool) QUICRandomFrames {
	var q QUICRandomFrames
	pp := c09PingPairs[r.IntN(len(c09PingPairs))]
	cp := c09CryptoPairs[r.IntN(len(c09CryptoPairs))]
	zp := c09PadPairs[r.IntN(len(c09PadPairs))]
	if r.IntN(8) == 0 { // off-lattice
		pp = [2]uint8{uint8(r.IntN(6)), uint8(r.IntN(8))}
		cp = [2]uint8{uint8(1 + r.IntN(20)), uint8(1 + r.IntN(40))}
		zp = [2]uint8{uint8(r.IntN(6)), uint8(r.IntN(10))}
	}
	if !allowZeroCrypto && cp[0] == 0 && r.IntN(4) != 0 {
		cp[0] = 1
	}
	q.MinPING, q.MaxPING = pp[0], pp[1]
	q.MinCRYPTO, q.MaxCRYPTO = cp[0], cp[1]
	q.MinPADDING, q.MaxPADDING = zp[0], zp[1]
	switch r.IntN(8) {
	case 0, 1:
		q.Length = 0
	case 2:
		q.Length = uint16([]int{1, 2, 3, 1200, 1215, 1357, 16383, 16384, 65535}[r.IntN(9)])
	default:
		v := natural + c09LenDeltas[r.IntN(len(c09LenDeltas))] + int(q.MinPING)
		if r.IntN(3) == 0 {
			v += 3 * int(q.MinCRYPTO)
		}
		q.Length = uint16(min(max(v, 0), 65535))
	}
	return q
}

func c09Natural(n int, base uint64) int {
	return 1 + c09VarintLen(base) + c09VarintLen(uint64(n)) + n
}

func c09CfgClass(q QUICRandomFrames, n int) string {
	cls := ""
	if q.MinPING == q.MaxPING {
		cls += "p="
	} else if q.MinPING > q.MaxPING {
		cls += "p>"
	}
	if q.MinCRYPTO == q.MaxCRYPTO {
		cls += "c="
	} else if q.MinCRYPTO > q.MaxCRYPTO {
		cls += "c>"
	}
	if q.MinCRYPTO == 0 {
		cls += "c0"
	}
	if int(q.MaxCRYPTO) > n {
		cls += "c>n"
	}
	if q.Length == 0 {
		cls += "L0"
	}
	if q.MinPADDING == q.MaxPADDING {
		cls += "z="
	} else if q.MinPADDING > q.MaxPADDING {
		cls += "z>"
	}
	return cls
}

func TestVerifC09Random(t *testing.T) {
	l := evlog.Open("C09")
	defer l.Close()
	idx := 0

	// ---- QUICRandomFrames: one configuration per case, many draws
	nCfg := l.Pick(900, 12000)
	draws := 2000
	for ci := 0; ci < nCfg; ci++ {
		if !l.Mine(idx) {
			idx++
			continue
		}
		idx++
		id := fmt.Sprintf("C09/random/cfg/%05d", ci)
		rng := l.Rand(id)
		var n int
		switch {
		case ci%5 == 0: // crypto length below the frame count
			n = rng.IntN(8)
		case ci%5 == 1:
			n = c09Lens[rng.IntN(len(c09Lens))]
		default:
			n = 1 + rng.IntN(1400)
		}
		base := c09Bases[rng.IntN(len(c09Bases))]
		if ci%3 == 0 {
			base = uint64(rng.IntN(5000))
		}
		q := c09RandCfg(rng, c09Natural(n, base), true)
		d := draws
		if n > 1500 {
			d = 150
		} else if int(q.MaxCRYPTO) > 60 || int(q.MaxPING) > 60 || int(q.MaxPADDING) > 60 {
			d = 600
		}
		c := l.Begin(id, map[string]any{"cfg": q, "len": n, "base": base, "draws": d})
		if c == nil {
			continue
		}
		rp := newC09Rep(c)
		data := c09Bytes(rng, n)
		cfgCls := c09CfgClass(q, n)
		rejected, accepted := 0, 0
		for k := 0; k < d; k++ {
			qq := q // the builder is used through a pointer; give it a private copy
			viaBuild := base == 0 && k%4 == 0
			trace := func() map[string]any { return map[string]any{"cfg": q, "len": n, "draw": k, "viaBuild": viaBuild} }
			oc, st, _ := c09Call(rp, "randomframes", "", data, base, true, trace, func() ([]byte, error) {
				if viaBuild {
					return qq.Build(data)
				}
				return qq.BuildForDatagram(k%3, data, base)
			})
			if qq != q {
				rp.viol("C09|randomframes|config-mutated", fmt.Sprintf("builder changed its own configuration from %+v to %+v", q, qq), nil)
			}
			if oc == "rejected" {
				rejected++
				c.Eval("rf rejected " + cfgCls)
				if rejected == k+1 && rejected >= 60 {
					break // rejected by its parameters: not draw dependent
				}
				continue
			}
			accepted++
			c09CountStats(c, st)
			c.Count("random_draws", 1)
			c.Eval(fmt.Sprintf("rf %s %s %s", oc, cfgCls, st.fp()))
		}
		if rejected > 0 && accepted > 0 {
			// the builders validate parameters only; whether a parameter set can be framed does
			// not depend on the draw, so a set that was framed once must not be refused next time
			rp.viol("C09|randomframes|draw-dependent-error", fmt.Sprintf("the same configuration and data were framed %d times and refused with an error %d times", accepted, rejected),
				map[string]any{"cfg": q, "len": n, "base": base})
		}
		c.Count("random_configs", 1)
		c.End()
	}

	// ---- QUICMultiDatagramFrames: a ClientHello cut into consecutive slices the way the packer
	// hands them out; every slice re-framed by the spec for its index; the union must be the
	// whole ClientHello.
	nMulti := l.Pick(400, 6000)
	for ci := 0; ci < nMulti; ci++ {
		if !l.Mine(idx) {
			idx++
			continue
		}
		idx++
		id := fmt.Sprintf("C09/random/multi/%05d", ci)
		rng := l.Rand(id)
		n := []int{0, 1, 5, 700, 1162, 1734, 2300, 3500, 4800}[rng.IntN(9)]
		if rng.IntN(2) == 0 {
			n = rng.IntN(4800)
		}
		nSpec := rng.IntN(4)
		if ci%10 != 0 && nSpec == 0 {
			nSpec = 1
		}
		m := &QUICMultiDatagramFrames{}
		allValid := true
		for i := 0; i < nSpec; i++ {
			q := c09RandCfg(rng, c09Natural(min(n, 1162), 0), false)
			if rng.IntN(3) != 0 { // mostly sane entries, so that complete flights are produced
				q.MinPING, q.MaxPING = min(q.MinPING, q.MaxPING), max(q.MinPING, q.MaxPING)
				q.MinCRYPTO, q.MaxCRYPTO = max(min(q.MinCRYPTO, q.MaxCRYPTO), 1), max(q.MinCRYPTO, q.MaxCRYPTO, 1)
				q.MinPADDING, q.MaxPADDING = max(min(q.MinPADDING, q.MaxPADDING), 1), max(q.MinPADDING, q.MaxPADDING, 1)
			}
			m.PerDatagram = append(m.PerDatagram, q)
		}
		// slices
		var sizes []int
		for left := n; ; {
			s := 1100 + rng.IntN(120)
			if rng.IntN(4) == 0 {
				s = 1 + rng.IntN(1400)
			}
			s = min(s, left)
			sizes = append(sizes, s)
			left -= s
			if left == 0 {
				break
			}
		}
		d := l.Pick(120, 300)
		c := l.Begin(id, map[string]any{"perDatagram": m.PerDatagram, "len": n, "slices": sizes, "draws": d})
		if c == nil {
			continue
		}
		_ = allValid
		rp := newC09Rep(c)
		data := c09Bytes(rng, n)
		mdOK, mdRej := 0, 0
		for k := 0; k < d; k++ {
			var payloads [][]byte
			off := 0
			failedAt := -1
			for di, s := range sizes {
				sl := data[off : off+s]
				base := uint64(off)
				trace := func() map[string]any {
					return map[string]any{"perDatagram": m.PerDatagram, "len": n, "slices": sizes, "datagramIdx": di, "draw": k}
				}
				oc, st, out := c09Call(rp, "multidgram", "", sl, base, true, trace, func() ([]byte, error) {
					if di == 0 && k%2 == 0 {
						return m.Build(sl)
					}
					return m.BuildForDatagram(di, sl, base)
				})
				if oc != "ok" {
					if oc == "rejected" {
						failedAt = di
					}
					break
				}
				c09CountStats(c, st)
				payloads = append(payloads, out)
				off += s
			}
			switch {
			case failedAt == 0:
				c.Eval("md rejected-first")
			case failedAt > 0:
				// the first failedAt datagrams are already on the wire when the builder refuses
				c.Eval(fmt.Sprintf("md rejected-late d%d", min(failedAt, 3)))
				rp.viol("C09|multidgram|error-after-output", fmt.Sprintf("BuildForDatagram(%d) returned an error after datagrams 0..%d of the flight had been built without error (they are sent before datagram %d is built): %d of %d ClientHello bytes are on the wire, no error before the first datagram", failedAt, failedAt-1, failedAt, off, n),
					map[string]any{"perDatagram": m.PerDatagram, "len": n, "slices": sizes, "failedAt": failedAt})
			case len(payloads) == len(sizes):
				cls, detail, st := c09Check(data, 0, payloads, true)
				if cls != "" {
					rp.viol("C09|multidgram|flight-"+cls, detail, map[string]any{"perDatagram": m.PerDatagram, "len": n, "slices": sizes, "payloads": c09HexAll(payloads)})
				}
				c.Count("multidgram_flights", 1)
				c.Eval("md ok " + st.fp())
			default:
				c.Eval("md viol")
			}
			if failedAt >= 0 {
				mdRej++
			} else if len(payloads) == len(sizes) {
				mdOK++
			}
			if failedAt == 0 && k >= 20 && mdOK == 0 {
				break
			}
		}
		if mdOK > 0 && mdRej > 0 {
			rp.viol("C09|multidgram|draw-dependent-error", fmt.Sprintf("the same configuration and data were framed %d times and refused with an error %d times", mdOK, mdRej),
				map[string]any{"perDatagram": m.PerDatagram, "len": n, "slices": sizes})
		}
		c.End()
	}
}

// ---------------------------------------------------------------------------------------
// (3) flight builders

// c09Range is a declared range with the datagram it is assigned to.
type c09Range struct{ Dg, Off, Len int }

// c09FlightPlan is a generated flight description: declared ranges (as written: possibly
// negative), class of the list, and the oracle's own view of it.
type c09FlightPlan struct {
	N         int
	Datagrams int
	Ranges    []c09Range
	Class     string // cover | overlap | gap | oob | degenerate
	ModelOK   bool   // every declared range denotes a sub-range
	ModelCov  bool   // ... and together they cover [0,N)
}

// c09Encode writes [s,e) of an n byte stream in one of the equivalent notations.
func c09Encode(r *rand.Rand, s, e, n int) (off, length int) {
	off = s
	if s < n && r.IntN(3) == 0 {
		off = s - n // counted back from the end (s == n has no negative spelling)
	}
	length = e - s
	switch {
	case e == n && (length == 0 || r.IntN(2) == 0):
		length = 0
	case e < n && length > 0 && r.IntN(3) == 0:
		length = e - n
	case length == 0: // empty range not at the end: only the negative spelling exists
		length = e - n
	}
	return
}

func c09GenFlight(r *rand.Rand, n int) c09FlightPlan {
	p := c09FlightPlan{N: n, Datagrams: 1 + r.IntN(4)}
	// partition
	k := 1 + r.IntN(6)
	k = min(k, max(n, 1))
	cutSet := map[int]bool{}
	for len(cutSet) < k-1 && n > 1 {
		switch r.IntN(3) {
		case 0:
			cutSet[1+r.IntN(n-1)] = true
		case 1:
			if v := []int{1, 62, 63, 64, 65, 365, 1139, 1201, 16383, 16384}[r.IntN(10)]; v < n {
				cutSet[v] = true
			}
		default:
			if v := n - []int{1, 2, 63, 64, 365}[r.IntN(5)]; v > 0 {
				cutSet[v] = true
			}
		}
	}
	cuts := []int{0}
	for v := range cutSet {
		cuts = append(cuts, v)
	}
	sortInts(cuts)
	cuts = append(cuts, n)
	type se struct{ s, e int }
	var parts []se
	for i := 0; i+1 < len(cuts); i++ {
		parts = append(parts, se{cuts[i], cuts[i+1]})
	}
	p.Class = "cover"
	mode := r.IntN(10)
	switch {
	case mode < 4: // exact partition
	case mode < 6: // overlaps: widen some parts, add extra ranges, maybe an empty one
		p.Class = "overlap"
		for i := range parts {
			if r.IntN(2) == 0 {
				parts[i].s = max(0, parts[i].s-r.IntN(40))
				parts[i].e = min(n, parts[i].e+r.IntN(40))
			}
		}
		if n > 0 {
			s := r.IntN(n)
			parts = append(parts, se{s, s + r.IntN(n-s+1)})
		}
		if r.IntN(3) == 0 {
			parts = append(parts, se{n, n})
		}
	case mode < 8 && n > 0: // gap: lose a whole part or a single byte at an edge
		p.Class = "gap"
		i := r.IntN(len(parts))
		switch r.IntN(4) {
		case 0:
			if len(parts) > 1 {
				parts = append(parts[:i], parts[i+1:]...)
			} else {
				parts[0].e--
			}
		case 1:
			parts[i].s++
		case 2:
			parts[i].e--
		default:
			parts[len(parts)-1].e-- // the very last byte
		}
	default: // out of bounds somewhere
		p.Class = "oob"
	}
	r.Shuffle(len(parts), func(i, j int) { parts[i], parts[j] = parts[j], parts[i] })
	for _, pt := range parts {
		s, e := pt.s, pt.e
		if e < s {
			e = s
		}
		o, ln := c09Encode(r, s, e, n)
		p.Ranges = append(p.Ranges, c09Range{Dg: r.IntN(p.Datagrams), Off: o, Len: ln})
	}
	if p.Class == "oob" {
		bad := []c09Range{{0, n + 1, 0}, {0, -(n + 1), 0}, {0, 0, n + 1}, {0, n, 1}, {0, max(n-1, 0), 2}, {0, 0, -(n + 1)}, {0, n / 2, -(n/2 + n%2 + 1)}, {0, -1, 2}, {0, n + 1 + r.IntN(70000), 5}, {0, -1 << 40, 1}, {0, 0, 1 << 40}, {0, 1 << 40, -1 << 40}}
		b := bad[r.IntN(len(bad))]
		b.Dg = r.IntN(p.Datagrams)
		at := r.IntN(len(p.Ranges) + 1)
		p.Ranges = append(p.Ranges[:at], append([]c09Range{b}, p.Ranges[at:]...)...)
	}
	// the oracle's own reading of the list
	mask := make([]bool, n)
	p.ModelOK = true
	for _, rg := range p.Ranges {
		s, e, ok := c09Resolve(rg.Off, rg.Len, n)
		if !ok {
			p.ModelOK = false
			continue
		}
		for i := s; i < e; i++ {
			mask[i] = true
		}
	}
	p.ModelCov = p.ModelOK
	for _, b := range mask {
		if !b {
			p.ModelCov = false
		}
	}
	return p
}

// asFlightFrames renders the plan as a QUICFlightFrames value (PING/PADDING sprinkled in).
func (p c09FlightPlan) asFlightFrames(r *rand.Rand) *QUICFlightFrames {
	f := &QUICFlightFrames{Datagrams: make([]QUICFrames, p.Datagrams)}
	for _, rg := range p.Ranges {
		f.Datagrams[rg.Dg] = append(f.Datagrams[rg.Dg], QUICFrameCrypto{Offset: rg.Off, Length: rg.Len})
	}
	for i := range f.Datagrams {
		for e := r.IntN(3); e > 0; e-- {
			var x QUICFrame = QUICFramePing{}
			if r.IntN(2) == 0 {
				x = QUICFramePadding{Length: r.IntN(20)}
			}
			at := r.IntN(len(f.Datagrams[i]) + 1)
			f.Datagrams[i] = append(f.Datagrams[i][:at], append(QUICFrames{x}, f.Datagrams[i][at:]...)...)
		}
	}
	return f
}

func (p c09FlightPlan) asRandomFlight(r *rand.Rand) *QUICRandomFlightFrames {
	f := &QUICRandomFlightFrames{PerDatagram: make([]QUICRandomFlightDatagram, p.Datagrams)}
	for _, rg := range p.Ranges {
		f.PerDatagram[rg.Dg].CryptoRanges = append(f.PerDatagram[rg.Dg].CryptoRanges, QUICCryptoRange{Offset: rg.Off, Length: rg.Len})
	}
	for i := range f.PerDatagram {
		switch r.IntN(4) {
		case 0: // zero value: one frame per range
		case 1:
			f.PerDatagram[i].Frames = c09RandCfg(r, 600, true)
		default:
			q := c09RandCfg(r, 600, true)
			q.MinPING, q.MaxPING = min(q.MinPING, q.MaxPING, 6), min(max(q.MinPING, q.MaxPING), 8)
			q.MinCRYPTO, q.MaxCRYPTO = min(q.MinCRYPTO, q.MaxCRYPTO), max(q.MinCRYPTO, q.MaxCRYPTO)
			q.MinPADDING, q.MaxPADDING = max(min(q.MinPADDING, q.MaxPADDING), 1), max(q.MinPADDING, q.MaxPADDING, 1)
			if r.IntN(2) == 0 {
				q.Length = 0
			}
			f.PerDatagram[i].Frames = q
		}
	}
	return f
}

func c09FlightDesc(fb QUICFlightFrameBuilder) any {
	switch v := fb.(type) {
	case *QUICFlightFrames:
		out := make([][]string, len(v.Datagrams))
		for i, d := range v.Datagrams {
			out[i] = c09FramesDesc(d)
		}
		return map[string]any{"QUICFlightFrames": out}
	case *QUICRandomFlightFrames:
		return map[string]any{"QUICRandomFlightFrames": v.PerDatagram}
	}
	return fmt.Sprintf("%T", fb)
}

// c09EvalBuildFlight applies the oracle to one BuildFlight call.
func c09EvalBuildFlight(c *evlog.Case, rp *c09Rep, comp string, fb QUICFlightFrameBuilder, p c09FlightPlan, data []byte, draw int) string {
	var payloads [][]byte
	var err error
	trace := func() map[string]any {
		return map[string]any{"builder": c09FlightDesc(fb), "plan": p, "draw": draw}
	}
	if pan, val, stack := c09Safe(func() { payloads, err = fb.BuildFlight(data, nil) }); pan {
		tr := trace()
		tr["panic"], tr["stack"] = val, stack
		rp.viol("C09|"+comp+"|panic|"+c09PanicClass(val), "BuildFlight panicked: "+val, tr)
		return "viol"
	}
	if err != nil {
		c.Count("rejected_with_error", 1)
		c.Count("flight_rejected_at_build_"+p.Class, 1)
		return "rejected"
	}
	// A covering list (by the documented meaning of the ranges) that is accepted must produce
	// a covering flight.  A non-covering list is rejected later, by the packer's plan
	// validation; at this level only validity and byte-correctness are demanded for it.
	cls, detail, st := c09Check(data, 0, payloads, p.ModelCov)
	if cls != "" {
		tr := trace()
		tr["payloads"] = c09HexAll(payloads)
		tr["data"] = c09Hex(data)
		rp.viol("C09|"+comp+"|"+cls, detail, tr)
		return "viol"
	}
	c09CountStats(c, st)
	c.Count("flights_built", 1)
	full := "partial"
	if st.Covered == len(data) {
		full = "full"
	}
	return fmt.Sprintf("ok %s %s %s", p.Class, full, st.fp())
}

func c09FlightLen(r *rand.Rand, i int) int {
	switch i % 6 {
	case 0:
		return r.IntN(9)
	case 1:
		return c09Lens[r.IntN(len(c09Lens))]
	case 2:
		return []int{1734, 2300, 3400}[r.IntN(3)]
	}
	return 1 + r.IntN(4800)
}

func TestVerifC09Flight(t *testing.T) {
	l := evlog.Open("C09")
	defer l.Close()
	idx := 0
	nBatch := l.Pick(320, 6000)
	const per = 25
	for bi := 0; bi < nBatch; bi++ {
		if !l.Mine(idx) {
			idx++
			continue
		}
		idx++
		id := fmt.Sprintf("C09/flight/build/%05d", bi)
		c := l.Begin(id, map[string]any{"batch": bi, "plans": per})
		if c == nil {
			continue
		}
		rp := newC09Rep(c)
		rng := l.Rand(id)
		for k := 0; k < per; k++ {
			n := c09FlightLen(rng, k)
			data := c09Bytes(rng, n)
			p := c09GenFlight(rng, n)
			c.Count("flight_plans_"+p.Class, 1)

			ff := p.asFlightFrames(rng)
			if k == 0 && bi%8 == 0 {
				ff = &QUICFlightFrames{} // degenerate: no datagrams
			}
			c.Eval("ff " + c09EvalBuildFlight(c, rp, "flightframes", ff, p, data, 0))
			// Build: the fallback for Initial packets outside the flight — first datagram only
			c09Call(rp, "flightframes", "|build-fallback", data, 0, false, func() map[string]any {
				return map[string]any{"builder": c09FlightDesc(ff), "via": "Build"}
			}, func() ([]byte, error) { return ff.Build(data) })

			rf := p.asRandomFlight(rng)
			if k == 1 && bi%8 == 0 {
				rf = &QUICRandomFlightFrames{}
			}
			d := 60
			if n > 5000 {
				d = 12
			}
			rej, acc := 0, 0
			for j := 0; j < d; j++ {
				oc := c09EvalBuildFlight(c, rp, "randomflight", rf, p, data, j)
				c.Eval("rff " + oc)
				if oc == "rejected" {
					rej++
					if rej == j+1 && rej >= 8 {
						break
					}
				} else if oc != "viol" {
					acc++
				}
			}
			if rej > 0 && acc > 0 {
				rp.viol("C09|randomflight|draw-dependent-error", fmt.Sprintf("the same plan and data were framed %d times and refused with an error %d times", acc, rej),
					map[string]any{"builder": c09FlightDesc(rf), "plan": p})
			}
			c09Call(rp, "randomflight", "|build-fallback", data, 0, false, func() map[string]any {
				return map[string]any{"builder": c09FlightDesc(rf), "via": "Build"}
			}, func() ([]byte, error) { return rf.Build(data) })
		}
		c.End()
	}

	// ---- QUICRandomFlightFrames: covering plans with valid framing parameters, thousands of
	// draws per configuration
	nDeep := l.Pick(40, 800)
	for di := 0; di < nDeep; di++ {
		if !l.Mine(idx) {
			idx++
			continue
		}
		idx++
		id := fmt.Sprintf("C09/flight/deep/%05d", di)
		rng := l.Rand(id)
		n := []int{1, 2, 5, 9, 66, 256, 1162, 1734, 2300, 3400, 4800, 16385}[di%12]
		var p c09FlightPlan
		for {
			if p = c09GenFlight(rng, n); p.ModelCov {
				break
			}
		}
		rf := p.asRandomFlight(rng)
		for i := range rf.PerDatagram {
			q := &rf.PerDatagram[i].Frames
			q.MinPING, q.MaxPING = min(q.MinPING, q.MaxPING), max(q.MinPING, q.MaxPING)
			q.MinCRYPTO, q.MaxCRYPTO = min(q.MinCRYPTO, q.MaxCRYPTO), max(q.MinCRYPTO, q.MaxCRYPTO)
			q.MinPADDING, q.MaxPADDING = max(min(q.MinPADDING, q.MaxPADDING), 1), max(q.MinPADDING, q.MaxPADDING, 1)
			if len(rf.PerDatagram[i].CryptoRanges) == 0 {
				rf.PerDatagram[i].CryptoRanges = []QUICCryptoRange{{Offset: -min(n, 1+rng.IntN(3))}}
			}
		}
		d := 2000
		if n > 5000 {
			d = 200
		}
		c := l.Begin(id, map[string]any{"builder": c09FlightDesc(rf), "len": n, "draws": d})
		if c == nil {
			continue
		}
		rp := newC09Rep(c)
		data := c09Bytes(rng, n)
		rej, acc := 0, 0
		for j := 0; j < d; j++ {
			oc := c09EvalBuildFlight(c, rp, "randomflight", rf, p, data, j)
			c.Eval("rff-deep " + oc)
			c.Count("random_flight_draws", 1)
			if oc == "rejected" {
				rej++
			} else if oc != "viol" {
				acc++
			}
		}
		if rej > 0 && acc > 0 {
			rp.viol("C09|randomflight|draw-dependent-error", fmt.Sprintf("the same plan and data were framed %d times and refused with an error %d times", acc, rej),
				map[string]any{"builder": c09FlightDesc(rf), "plan": p})
		}
		c.End()
	}
}
