package quic_test

// C17 — every way a connection ends unblocks callers, informs the peer, frees resources.
//
// One synctest bubble per case: a real client and server over the simulated network, a chosen
// set of API calls blocked on the victim endpoint (confirmed blocked with synctest.Wait), a
// close cause triggered at a known virtual time, and an oracle over (return time, error) of
// every blocked call, the context cause, later calls, the CONNECTION_CLOSE frames the wire
// observer decrypted, and the goroutines left in the bubble.

import (
	"strings"
	"context"
	"errors"
	"fmt"
	"io"
	"net"
	"runtime"
	"sort"
	"sync"
	"testing"
	"testing/synctest"
	"time"

	quic "github.com/refraction-networking/uquic"
	"github.com/refraction-networking/uquic/internal/verif/evlog"
	"github.com/refraction-networking/uquic/internal/verif/quicworld"
	"github.com/refraction-networking/uquic/internal/verif/simworld"
	"github.com/refraction-networking/uquic/internal/verif/wiretap"
	"github.com/refraction-networking/uquic/internal/verifhook"
)

type c17Case struct {
	Name      string   `json:"name"`
	Cause     string   `json:"cause"`  // local-close remote-close remote-close-lost idle-timeout stateless-reset transport-error transport-close keepalive
	Victim    string   `json:"victim"` // client | server
	Blocked   []string `json:"blocked"`
	IdleMs    int      `json:"idle_ms"`
	KeepAlive bool     `json:"keepalive"`
	HookSeed  uint64   `json:"hook_seed"`
	Client    string   `json:"client"` // plain | Chrome_115_IPv4 ...
	Transfer  bool     `json:"mid_transfer"`
	Retry     bool     `json:"retry,omitempty"`    // the server validates addresses with a Retry
	Multi     int      `json:"multi,omitempty"`    // > 1: this many concurrent instances of every accept / open / receive-datagram call in the blocked set
	Churn     int      `json:"churn_us,omitempty"` // > 0: 30 incoming streams reach EOF in the victim's readers this many microseconds before .. after the cause
}

var c17Calls = []string{"read", "write", "accept", "acceptuni", "opensync", "openunisync", "rcvdgram", "writesmall"}

// c17Base strips the instance suffix of a blocked call's name.
func c17Base(name string) string {
	if i := strings.IndexByte(name, '#'); i >= 0 {
		return name[:i]
	}
	return name
}

type c17Ret struct {
	call string
	at   time.Duration
	err  error
	ok   bool // returned
}

// errClass maps an error to a comparable description of the close cause it carries.
func c17ErrClass(err error) string {
	var ae *quic.ApplicationError
	var te *quic.TransportError
	var ie *quic.IdleTimeoutError
	var he *quic.HandshakeTimeoutError
	var se *quic.StatelessResetError
	var ve *quic.VersionNegotiationError
	switch {
	case err == nil:
		return "nil"
	case errors.As(err, &ae):
		return fmt.Sprintf("application(remote=%v,code=%#x,msg=%q)", ae.Remote, uint64(ae.ErrorCode), ae.ErrorMessage)
	case errors.As(err, &te):
		return fmt.Sprintf("transport(remote=%v,code=%#x)", te.Remote, uint64(te.ErrorCode))
	case errors.As(err, &ie):
		return "idle-timeout"
	case errors.As(err, &he):
		return "handshake-timeout"
	case errors.As(err, &se):
		return "stateless-reset"
	case errors.As(err, &ve):
		return "version-negotiation"
	case errors.Is(err, quic.ErrTransportClosed):
		return "transport-closed"
	case errors.Is(err, quic.ErrServerClosed):
		return "server-closed"
	case errors.Is(err, context.Canceled):
		return "context-canceled"
	case errors.Is(err, context.DeadlineExceeded):
		return "context-deadline"
	}
	return fmt.Sprintf("other(%T: %v)", err, err)
}

func TestVerifC17Close(t *testing.T) {
	if !verifhook.Enabled {
		t.Fatal("built without -tags verif")
	}
	l := evlog.Open("C17")
	defer l.Close()
	causes := []string{"local-close", "remote-close", "remote-close-lost", "idle-timeout", "idle-timeout-replay", "idle-timeout-chatter", "stateless-reset", "transport-error", "transport-close", "local-close-send-error"}
	var cases []c17Case
	rng := l.Rand("c17")
	idx := 0
	add := func(c c17Case) {
		c.HookSeed = uint64(idx)*7919 + uint64(l.Seed())
		idx++
		cases = append(cases, c)
	}
	for _, cause := range causes {
		for _, victim := range []string{"client", "server"} {
			// every single blocked call, all of them, none
			sets := [][]string{{}, c17Calls}
			for _, c := range c17Calls {
				sets = append(sets, []string{c})
			}
			if l.Quick() {
				for i := 0; i < 6; i++ {
					var s []string
					for _, c := range c17Calls {
						if rng.IntN(2) == 0 {
							s = append(s, c)
						}
					}
					sets = append(sets, s)
				}
			} else {
				// every subset of the blocked calls, eight times (different hook seeds, idle periods, client kinds)
				for rep := 0; rep < 8; rep++ {
					for m := 1; m < 1<<len(c17Calls)-1; m++ {
						var s []string
						for i, c := range c17Calls {
							if m&(1<<i) != 0 {
								s = append(s, c)
							}
						}
						sets = append(sets, s)
					}
				}
			}
			for si, s := range sets {
				idle := []int{1000, 5000, 30000}[rng.IntN(3)]
				if cause == "idle-timeout" || cause == "idle-timeout-replay" || cause == "idle-timeout-chatter" || cause == "remote-close-lost" {
					idle = []int{1000, 5000, 30000}[si%3]
				}
				client := "plain"
				if victim == "client" && si%4 == 3 {
					client = []string{"Chrome_115_IPv4", "Firefox_116A"}[rng.IntN(2)]
				}
				cc := c17Case{Name: fmt.Sprintf("%s/%s/set%03d", cause, victim, si), Cause: cause, Victim: victim, Blocked: s, IdleMs: idle, Client: client, Transfer: si%5 == 4, Retry: si%6 == 1}
				if si%3 == 2 {
					cc.Multi = 2 + si%2
				}
				add(cc)
			}
		}
	}
	// streams that complete at the instant the connection ends (see Churn)
	for rep := 0; rep < l.Pick(8, 200); rep++ {
		for _, cause := range []string{"local-close", "remote-close", "transport-close", "transport-error", "stateless-reset"} {
			for _, victim := range []string{"client", "server"} {
				churn := []int{4900, 5000, 5000, 5100}[rng.IntN(4)] // local causes: when the FINs arrive
				if cause == "remote-close" || cause == "transport-error" || cause == "stateless-reset" {
					churn = 1 + rng.IntN(40) // causes that travel: right behind the FINs
				}
				add(c17Case{Name: fmt.Sprintf("churn/%s/%s/r%d", cause, victim, rep), Cause: cause, Victim: victim, Blocked: []string{"read", "opensync"}, IdleMs: 30000, Client: "plain", Churn: churn})
			}
		}
	}
	for _, idle := range []int{1000, 5000} {
		for _, victim := range []string{"client", "server"} {
			add(c17Case{Name: fmt.Sprintf("keepalive/%s/idle%d", victim, idle), Cause: "keepalive", Victim: victim, IdleMs: idle, KeepAlive: true, Client: "plain", Blocked: []string{"accept"}})
		}
	}
	for i, cs := range cases {
		if !l.Mine(i) {
			continue
		}
		c := l.Begin("C17/"+cs.Name, cs)
		if c == nil {
			continue
		}
		synctest.Test(t, func(t *testing.T) { runC17(l, c, &cs) })
		c.End()
	}
	for k, v := range verifhook.Hits() {
		l.Count("hook:"+k, int64(v))
	}
}

func runC17(l *evlog.Log, c *evlog.Case, cs *c17Case) {
	idle := time.Duration(cs.IdleMs) * time.Millisecond
	// H2: seeded virtual delays at the schedule points on the close path
	hr := l.Rand(fmt.Sprintf("hooks-%d", cs.HookSeed))
	var hmu sync.Mutex
	verifhook.SetAction("*", func(string) {
		hmu.Lock()
		d := time.Duration(hr.IntN(6)) * time.Millisecond
		if hr.IntN(3) == 0 {
			d = 0
		}
		hmu.Unlock()
		if d > 0 {
			time.Sleep(d)
		}
	})
	defer verifhook.ClearActions()
	if cs.Churn > 0 {
		// The readers that were just woken need some real time to get going; the close path yields for a
		// seeded number of scheduler rounds (real time, not virtual: virtual sleeps would let the readers
		// finish first) right before it closes the streams map.
		spin := func(string) {
			hmu.Lock()
			n := hr.IntN(4000)
			hmu.Unlock()
			for i := 0; i < n; i++ {
				runtime.Gosched()
			}
		}
		verifhook.SetAction("conn.run.beforeHandleCloseError", spin)
		verifhook.SetAction("conn.handleCloseError.beforeStreamsClose", spin)
	}

	var world *quicworld.World
	viol := func(sig, f string, a ...any) {
		tr := map[string]any{"case": cs}
		if world != nil && world.Wire != nil {
			if taps := world.Wire.Snapshot(); len(taps) > 0 {
				tr["wire_tail"] = taps[len(taps)-1].Describe(25)
			}
		}
		c.Violation("C17|"+cs.Cause+"|"+sig, fmt.Sprintf(f, a...), tr)
	}
	victimIsClient := cs.Victim == "client"
	vconf := &quic.Config{MaxIdleTimeout: idle, EnableDatagrams: true, MaxIncomingStreams: 100, MaxIncomingUniStreams: 100, HandshakeIdleTimeout: 10 * time.Second}
	pconf := &quic.Config{MaxIdleTimeout: idle, EnableDatagrams: true, MaxIncomingStreams: 2, MaxIncomingUniStreams: 1, HandshakeIdleTimeout: 10 * time.Second,
		InitialStreamReceiveWindow: 4096, MaxStreamReceiveWindow: 4096}
	if cs.KeepAlive {
		vconf.KeepAlivePeriod = idle / 2
	}
	opt := quicworld.Options{RTT: 10 * time.Millisecond}
	if cs.Retry {
		opt.VerifySourceAddress = func(net.Addr) bool { return true }
	}
	if victimIsClient {
		opt.ClientConf, opt.ServerConf = vconf, pconf
	} else {
		opt.ClientConf, opt.ServerConf = pconf, vconf
	}
	if cs.Client != "plain" && cs.Client != "" {
		spec, err := quic.QUICID2Spec(quicworld.QUICIDs[cs.Client])
		if err != nil {
			viol("harness", "QUICID2Spec: %v", err)
			return
		}
		opt.ClientKind, opt.Spec = "spec", &spec
	}
	// record what the router sees: last delivery to the victim, first ack-eliciting emission of the victim after it
	var rmu sync.Mutex
	var lastRecv, firstAESendAfterRecv time.Duration = -1, -1
	dropCloses := false
	w, err := quicworld.New(opt)
	if err != nil {
		viol("harness", "world: %v", err)
		return
	}
	world = w
	toVictim := wiretap.C2S
	if victimIsClient {
		toVictim = wiretap.S2C
	}
	var lastShortRaw []byte // the last datagram delivered to the victim that consisted of 1-RTT packets
	w.Router.SetOnDeliver(func(d *wiretap.DatagramInfo, mod wiretap.Mod) {
		if d.Dir == toVictim {
			rmu.Lock()
			lastRecv = w.Router.Now()
			firstAESendAfterRecv = -1
			if len(d.Packets) > 0 && d.Packets[0].Kind == wiretap.KindOneRTT && mod == wiretap.NoMod {
				lastShortRaw = append(lastShortRaw[:0], d.Raw...)
			}
			rmu.Unlock()
		}
	})
	w.Router.SetOnEmit(func(d *wiretap.DatagramInfo) *simworld.Action {
		if d.Dir != toVictim {
			ae := false
			for _, p := range d.Packets {
				if p.AckElic {
					ae = true
				}
			}
			rmu.Lock()
			if ae && firstAESendAfterRecv < 0 {
				firstAESendAfterRecv = w.Router.Now()
			}
			rmu.Unlock()
		}
		rmu.Lock()
		dc := dropCloses
		rmu.Unlock()
		if dc {
			for _, p := range d.Packets {
				for _, f := range p.Frames {
					if f.Type == wiretap.FtConnClose || f.Type == wiretap.FtConnCloseApp {
						return &simworld.Action{Kind: "drop"}
					}
				}
			}
		}
		return nil
	})
	defer func() {
		// routing entries: by now both connections were closed (the deferred CloseWithError calls below
		// run first); long after every closing period and idle timeout has passed, neither transport may
		// still route a connection ID or hold a stateless reset token
		time.Sleep(5 * time.Minute)
		synctest.Wait()
		for _, tr := range []struct {
			name string
			t    *quic.Transport
		}{{"client", w.ClientTr}, {"server", w.ServerTr}} {
			if tr.t == nil {
				continue
			}
			cids, closed, tokens := quic.VerifRouting(tr.t)
			l.Count("routing_tables_inspected", 1)
			if len(cids) > 0 || tokens > 0 {
				var ids []string
				for id := range cids {
					ids = append(ids, fmt.Sprintf("%x", id))
				}
				sort.Strings(ids)
				viol("leak|routing-entries-after-closing-period|"+tr.name, "5 min (virtual) after both connections ended the %s transport still routes %d connection ID(s) %v (%d to closed-connection placeholders) and holds %d stateless reset token(s)", tr.name, len(cids), ids, closed, tokens)
			}
		}
		w.Close()
		time.Sleep(5 * time.Minute)
		synctest.Wait()
		if lk := quicworld.BubbleGoroutines(); len(lk) > 0 {
			viol("leak|goroutines-alive-after-close", "%d goroutine(s) still alive 5 min (virtual) after everything was closed:\n%s", len(lk), lk[0])
		}
	}()

	ctx, cancel := context.WithTimeout(context.Background(), 20*time.Second)
	defer cancel()
	type acc struct {
		c   *quic.Conn
		err error
	}
	accCh := make(chan acc, 1)
	go func() {
		sc, err := w.Accept(ctx)
		accCh <- acc{sc, err}
	}()
	cconn, err := w.Dial(ctx)
	if err != nil {
		cancel()
		<-accCh
		viol("harness|dial-failed", "dial: %v", err)
		return
	}
	a := <-accCh
	if a.err != nil {
		viol("harness|accept-failed", "accept: %v", a.err)
		cconn.CloseWithError(0, "")
		return
	}
	sconn := a.c
	victim, peer := sconn, cconn
	if victimIsClient {
		victim, peer = cconn, sconn
	}
	defer func() {
		cconn.CloseWithError(0, "")
		sconn.CloseWithError(0, "")
	}()

	// ---- set the stage: two bidirectional streams and one unidirectional stream opened by the victim
	// exhaust the peer's stream limits; the peer accepts them and holds them without reading.
	bg := context.Background()
	s1, err1 := victim.OpenStreamSync(ctx)
	s2, err2 := victim.OpenStreamSync(ctx)
	u1, err3 := victim.OpenUniStreamSync(ctx)
	if err1 != nil || err2 != nil || err3 != nil {
		viol("harness|setup", "opening streams: %v %v %v", err1, err2, err3)
		return
	}
	s1.Write([]byte{1})
	s2.Write([]byte{2})
	u1.Write([]byte{3})
	var peerStreams []*quic.Stream
	for i := 0; i < 2; i++ {
		ps, err := peer.AcceptStream(ctx)
		if err != nil {
			viol("harness|setup", "peer accept: %v", err)
			return
		}
		peerStreams = append(peerStreams, ps)
	}
	if _, err := peer.AcceptUniStream(ctx); err != nil {
		viol("harness|setup", "peer accept uni: %v", err)
		return
	}
	var bgwg sync.WaitGroup
	if cs.Transfer {
		// a transfer towards the victim that is in progress when the cause hits
		ps, err := peer.OpenStreamSync(ctx)
		if err == nil {
			bgwg.Add(2)
			go func() {
				defer bgwg.Done()
				buf := make([]byte, 1000)
				for {
					if _, err := ps.Write(buf); err != nil {
						return
					}
					time.Sleep(2 * time.Millisecond)
				}
			}()
			go func() {
				defer bgwg.Done()
				vs, err := victim.AcceptStream(ctx)
				if err != nil {
					return
				}
				buf := make([]byte, 3000)
				for {
					if _, err := vs.Read(buf); err != nil {
						return
					}
				}
			}()
		}
	}
	defer bgwg.Wait()

	start := w.Router.Now
	var mu sync.Mutex
	rets := map[string]*c17Ret{}
	var wg sync.WaitGroup
	var run func(name string, f func() error)
	run = func(name string, f func() error) {
		r := &c17Ret{call: name}
		mu.Lock()
		rets[name] = r
		mu.Unlock()
		wg.Add(1)
		go func() {
			defer wg.Done()
			err := f()
			mu.Lock()
			r.at, r.err, r.ok = start(), err, true
			mu.Unlock()
		}()
	}
	bgc, bgCancel := context.WithCancel(bg) // the context of the blocked calls; cancelled only to let a stuck call go at the end
	defer bgCancel()
	plainRun := run
	run = func(name string, f func() error) {
		plainRun(name, f)
		switch name {
		case "accept", "acceptuni", "opensync", "openunisync", "rcvdgram":
			for i := 2; i <= cs.Multi; i++ {
				plainRun(fmt.Sprintf("%s#%d", name, i), f)
			}
		}
	}
	for _, b := range cs.Blocked {
		switch b {
		case "read":
			run(b, func() error { _, err := s1.Read(make([]byte, 10)); return err })
		case "write":
			run(b, func() error { _, err := s2.Write(make([]byte, 256<<10)); return err })
		case "writesmall":
			// a small Write that waits behind an already buffered small frame: the stream's window (4096 bytes)
			// is used up, the next 1000 bytes are buffered without being sent, the last 1000 bytes do not fit
			// into the same frame buffer and block
			run(b, func() error {
				if _, err := u1.Write(make([]byte, 4095)); err != nil {
					return fmt.Errorf("setup write: %w", err)
				}
				if _, err := u1.Write(make([]byte, 1000)); err != nil {
					return fmt.Errorf("setup write 2: %w", err)
				}
				n, err := u1.Write(make([]byte, 1000))
				if err == nil {
					return fmt.Errorf("verif: Write returned n=%d and no error", n)
				}
				return err
			})
		case "accept":
			if cs.Transfer {
				continue // the background transfer uses AcceptStream itself
			}
			run(b, func() error { _, err := victim.AcceptStream(bgc); return err })
		case "acceptuni":
			if cs.Churn > 0 {
				continue // the churn below accepts unidirectional streams itself
			}
			run(b, func() error { _, err := victim.AcceptUniStream(bgc); return err })
		case "opensync":
			run(b, func() error { _, err := victim.OpenStreamSync(bgc); return err })
		case "openunisync":
			run(b, func() error { _, err := victim.OpenUniStreamSync(bgc); return err })
		case "rcvdgram":
			run(b, func() error { _, err := victim.ReceiveDatagram(bgc); return err })
		}
	}
	if !cs.Transfer {
		time.Sleep(300 * time.Millisecond) // let the write fill the window and everything settle
		synctest.Wait()
	} else {
		time.Sleep(300 * time.Millisecond)
	}
	mu.Lock()
	for name, r := range rets {
		if r.ok {
			mu.Unlock()
			viol("harness|call-did-not-block", "%s returned before any close cause: %v", name, r.err)
			return
		}
	}
	mu.Unlock()

	// The period the victim really negotiated: the minimum of what it advertised itself (a spec-driven
	// client advertises and enforces its spec's value, not the Config's) and what the peer advertised,
	// the latter raised to the documented floor protocol.MinRemoteIdleTimeout (5 s).
	if taps := w.Wire.Snapshot(); len(taps) > 0 {
		tap := taps[len(taps)-1]
		w.Wire.Lock()
		own, other := tap.ServerTP, tap.ClientTP
		if victimIsClient {
			own, other = tap.ClientTP, tap.ServerTP
		}
		if own != nil && other != nil {
			o := time.Duration(own.Int(wiretap.TPMaxIdleTimeout, 0)) * time.Millisecond
			p := time.Duration(other.Int(wiretap.TPMaxIdleTimeout, 0)) * time.Millisecond
			if p > 0 && p < 5*time.Second {
				p = 5 * time.Second
			}
			switch {
			case o > 0 && p > 0:
				idle = min(o, p)
			case o > 0:
				idle = o
			case p > 0:
				idle = p
			}
		}
		w.Wire.Unlock()
	}

	// ---- watch the victim's context
	var ctxDoneAt time.Duration = -1
	ctxWatch := make(chan struct{})
	go func() {
		<-victim.Context().Done()
		mu.Lock()
		ctxDoneAt = start()
		mu.Unlock()
		close(ctxWatch)
	}()

	// ---- streams that complete while the connection ends: 30 incoming unidirectional streams whose readers
	// have consumed everything but the FIN; the peer sends all FINs now, they arrive half a round trip later,
	// at (about) the instant the cause hits: Reads that complete a stream run concurrently with the close
	if cs.Churn > 0 {
		var churn []*quic.SendStream
		for i := 0; i < 30; i++ {
			ps, err := peer.OpenUniStream()
			if err != nil {
				break
			}
			ps.Write([]byte{1, 2, 3, 4, 5})
			churn = append(churn, ps)
		}
		for range churn {
			vs, err := victim.AcceptUniStream(ctx)
			if err != nil {
				break
			}
			bgwg.Add(1)
			go func() {
				defer bgwg.Done()
				io.ReadAll(vs)
			}()
		}
		time.Sleep(100 * time.Millisecond)
		for _, ps := range churn {
			ps.Close()
		}
		l.Count("churn_streams_finishing_at_the_cause", int64(len(churn)))
		time.Sleep(time.Duration(cs.Churn) * time.Microsecond)
	}
	// ---- trigger
	trigger := start()
	wantVictim, wantPeer := "", ""
	wantWire := "" // CONNECTION_CLOSE expected from the victim: "app:<code>" "transport:<code>" "none" ""(unchecked)
	const appCode = 0x1234
	maxWait := 2 * time.Second
	switch cs.Cause {
	case "local-close":
		victim.CloseWithError(appCode, "bye")
		wantVictim = fmt.Sprintf("application(remote=false,code=%#x,msg=%q)", appCode, "bye")
		wantPeer = fmt.Sprintf("application(remote=true,code=%#x,msg=%q)", appCode, "bye")
		wantWire = fmt.Sprintf("app:%#x", appCode)
	case "local-close-send-error":
		// the victim's socket refuses to send (e.g. the network is unreachable) when the application closes:
		// everything local happens all the same, the peer cannot be told
		if victimIsClient {
			w.ClientSendFails.Store(true)
			defer w.ClientSendFails.Store(false)
		} else {
			w.ServerSendFails.Store(true)
			defer w.ServerSendFails.Store(false)
		}
		victim.CloseWithError(appCode, "bye")
		wantVictim = fmt.Sprintf("application(remote=false,code=%#x,msg=%q)", appCode, "bye")
		wantWire = "none"
	case "remote-close":
		peer.CloseWithError(appCode, "bye")
		wantVictim = fmt.Sprintf("application(remote=true,code=%#x,msg=%q)", appCode, "bye")
	case "remote-close-lost":
		rmu.Lock()
		dropCloses = true
		rmu.Unlock()
		peer.CloseWithError(appCode, "bye")
		wantVictim = "idle-timeout"
		wantWire = "none"
		maxWait = idle + 3*time.Second
	case "idle-timeout", "idle-timeout-replay", "idle-timeout-chatter":
		w.Router.SetBlackhole(wiretap.C2S, true)
		w.Router.SetBlackhole(wiretap.S2C, true)
		wantVictim = "idle-timeout"
		wantWire = "none"
		maxWait = idle + 3*time.Second
		if cs.Cause == "idle-timeout-chatter" {
			// the victim's application keeps writing into the blackout: only the first ack-eliciting packet after
			// the last one received restarts the idle period, the later ones must not keep the connection alive
			go func() {
				for i := 0; i < 40; i++ {
					if _, err := u1.Write([]byte("still there?")); err != nil {
						return
					}
					time.Sleep(idle / 5)
				}
			}()
		}
		if cs.Cause == "idle-timeout-replay" {
			// late in the silence somebody replays a datagram the victim has already processed: a duplicate is
			// dropped, it is not "a packet received" that restarts the idle period
			rmu.Lock()
			replay := append([]byte(nil), lastShortRaw...)
			rmu.Unlock()
			if len(replay) == 0 {
				c.Eval("")
				l.Count("replay_no_datagram_recorded", 1)
				return
			}
			from, to := net.Addr(quicworld.ServerAddr), net.Addr(quicworld.ClientAddr)
			if !victimIsClient {
				from, to = to, from
			}
			for _, frac := range []int{5, 8} {
				w.Router.Inject(toVictim, from, to, replay, idle*time.Duration(frac)/10)
			}
			l.Count("replays_injected", 2)
		}
	case "stateless-reset":
		var tok []byte
		var tap *wiretap.ConnTap
		if taps := w.Wire.Snapshot(); len(taps) > 0 {
			tap = taps[len(taps)-1]
		}
		if tap != nil {
			w.Wire.Lock()
			// the token that belongs to the connection ID the victim currently sends to
			issuer := wiretap.S2C
			if !victimIsClient {
				issuer = wiretap.C2S
			}
			cur := tap.LastDCID[1-issuer]
			for seq, cid := range tap.IssuedCIDs[issuer] {
				if string(cid) == string(cur) {
					tok = tap.ResetTokens[issuer][seq]
				}
			}
			if tok == nil && issuer == wiretap.S2C && string(cur) == string(tap.ServerSCID) {
				tok = tap.ResetTokens[issuer][0]
			}
			w.Wire.Unlock()
		}
		if tok == nil {
			c.Eval("") // no usable token observed (e.g. the client issued no token for its handshake connection ID)
			l.Count("stateless_reset_token_unknown", 1)
			return
		}
		from, to := net.Addr(quicworld.ServerAddr), net.Addr(quicworld.ClientAddr)
		if !victimIsClient {
			from, to = to, from
		}
		w.Router.Inject(toVictim, from, to, wiretap.StatelessReset(tok, 60), 0)
		wantVictim = "stateless-reset"
		wantWire = "none"
	case "transport-error":
		taps := w.Wire.Snapshot()
		if len(taps) == 0 {
			viol("harness", "no tap")
			return
		}
		tap := taps[len(taps)-1]
		// a STREAM frame for a stream far beyond the limit the victim advertised: STREAM_LIMIT_ERROR
		id := uint64(4*5000 + 1)
		if !victimIsClient {
			id = 4 * 5000
		}
		pkt, err := tap.ForgeShort(toVictim, wiretap.StreamFrame(id, 0, []byte("x"), false))
		if err != nil {
			viol("harness", "forge: %v", err)
			return
		}
		from, to := net.Addr(quicworld.ServerAddr), net.Addr(quicworld.ClientAddr)
		if !victimIsClient {
			from, to = to, from
		}
		w.Router.Inject(toVictim, from, to, pkt, 0)
		wantVictim = "transport(remote=false,code=0x4)"
		wantPeer = "transport(remote=true,code=0x4)"
		wantWire = "transport:0x4"
	case "transport-close":
		go func() {
			if victimIsClient {
				w.ClientTr.Close()
			} else {
				w.ServerTr.Close()
			}
		}()
		wantVictim = "transport-closed"
	case "keepalive":
		// the peer answers keep-alives: the connection must stay alive for 5 idle periods
		select {
		case <-ctxWatch:
			viol("closed-while-keepalives-answered", "victim connection ended after %s with %v although keep-alives (period %s) were answered", start()-trigger, context.Cause(victim.Context()), idle/2)
		case <-time.After(5 * idle):
			c.Eval(cs.Name)
			l.Count("keepalive_periods_survived", 5)
		}
		victim.CloseWithError(0, "")
		wg.Wait()
		<-ctxWatch
		return
	}

	// ---- wait for the cause to be recorded at the victim
	select {
	case <-ctxWatch:
	case <-time.After(maxWait + 5*time.Second):
		viol("cause-not-recorded", "victim context not cancelled %s after the trigger", maxWait+5*time.Second)
		victim.CloseWithError(0, "")
		<-ctxWatch
		wg.Wait()
		return
	}
	cause := context.Cause(victim.Context())
	mu.Lock()
	doneAt := ctxDoneAt
	mu.Unlock()
	got := c17ErrClass(cause)
	if wantVictim != "" && got != wantVictim {
		viol("wrong-cause|want="+wantVictim, "context cause is %s (%v)", got, cause)
	}
	switch cs.Cause {
	case "local-close", "local-close-send-error", "transport-close", "stateless-reset", "transport-error", "remote-close":
		if doneAt-trigger > time.Second {
			viol("cause-recorded-late", "context cancelled %s after the trigger", doneAt-trigger)
		}
	case "idle-timeout", "idle-timeout-replay", "idle-timeout-chatter", "remote-close-lost":
		rmu.Lock()
		lr, fs := lastRecv, firstAESendAfterRecv
		rmu.Unlock()
		ref := lr
		if fs > ref {
			ref = fs
		}
		if doneAt < lr+idle {
			viol("idle-timeout-too-early", "idle timeout fired %s after the last packet was received (negotiated idle timeout %s)", doneAt-lr, idle)
		}
		// 3*PTO floor: with RTT 10 ms the PTO is far below 300 ms
		if doneAt > ref+max(idle, time.Second)+50*time.Millisecond {
			viol("idle-timeout-too-late", "idle timeout fired %s after the last activity (negotiated idle timeout %s)", doneAt-ref, idle)
		}
		l.Count("idle_timeouts_timed", 1)
	}

	// ---- blocked calls: return promptly, with the recorded cause
	retDone := make(chan struct{})
	go func() { wg.Wait(); close(retDone) }()
	select {
	case <-retDone:
	case <-time.After(time.Second):
	}
	mu.Lock()
	for name, r := range rets {
		if !r.ok {
			viol("call-still-blocked|"+c17Base(name), "%s still blocked 1 s (virtual) after the connection context was cancelled with %v", name, cause)
			continue
		}
		if r.at-doneAt > time.Second {
			viol("call-returned-late|"+c17Base(name), "%s returned %s after the context was cancelled", name, r.at-doneAt)
		}
		if ec := c17ErrClass(r.err); ec != got {
			viol("call-error-differs-from-cause|"+c17Base(name), "%s returned %s (%v); recorded cause %s", name, ec, r.err, got)
		}
		l.Count("blocked_calls_checked", 1)
	}
	mu.Unlock()
	// unblock whatever is still stuck so that the bubble can end
	select {
	case <-retDone:
	default:
		victim.CloseWithError(0, "")
		s1.CancelRead(0)
		s2.CancelWrite(0)
		bgCancel()
		<-retDone
	}

	// ---- later calls fail with the same cause, without blocking
	later := map[string]func() error{
		"OpenStream":      func() error { _, err := victim.OpenStream(); return err },
		"OpenStreamSync":  func() error { _, err := victim.OpenStreamSync(bg); return err },
		"OpenUniStream":   func() error { _, err := victim.OpenUniStream(); return err },
		"AcceptStream":    func() error { _, err := victim.AcceptStream(bg); return err },
		"AcceptUniStream": func() error { _, err := victim.AcceptUniStream(bg); return err },
		"ReceiveDatagram": func() error { _, err := victim.ReceiveDatagram(bg); return err },
		"SendDatagram":    func() error { return victim.SendDatagram([]byte("x")) },
		"Read":            func() error { _, err := s1.Read(make([]byte, 1)); return err },
		"Write":           func() error { _, err := s1.Write([]byte("x")); return err },
	}
	for name, f := range later {
		ch := make(chan error, 1)
		go func() { ch <- f() }()
		select {
		case err := <-ch:
			if err == nil {
				viol("later-call-succeeded|"+name, "%s succeeded after the connection ended with %v", name, cause)
			} else if ec := c17ErrClass(err); ec != got {
				viol("later-call-error-differs-from-cause|"+name, "%s returned %s (%v); recorded cause %s", name, ec, err, got)
			}
			l.Count("later_calls_checked", 1)
		case <-time.After(time.Second):
			viol("later-call-blocked|"+name, "%s blocked after the connection ended with %v", name, cause)
			// it will be unblocked when the deferred cleanup runs; wait for it there
			go func() { <-ch }()
		}
	}

	// ---- the peer learns the matching cause where a CONNECTION_CLOSE is due and was delivered
	if wantPeer != "" {
		select {
		case <-peer.Context().Done():
			if pc := c17ErrClass(context.Cause(peer.Context())); pc != wantPeer {
				viol("peer-cause-mismatch|want="+wantPeer, "peer's cause is %s", pc)
			}
		case <-time.After(2 * time.Second):
			viol("peer-not-informed", "peer connection still alive 2 s after the victim closed with %v", cause)
		}
	}

	// ---- wire: CONNECTION_CLOSE from the victim where one is due, none where none is due
	time.Sleep(200 * time.Millisecond)
	if taps := w.Wire.Snapshot(); len(taps) > 0 && wantWire != "" {
		tap := taps[len(taps)-1]
		fromVictim := wiretap.S2C
		if victimIsClient {
			fromVictim = wiretap.C2S
		}
		w.Wire.Lock()
		closes := append([]wiretap.Frame(nil), tap.Closes[fromVictim]...)
		w.Wire.Unlock()
		switch {
		case wantWire == "none":
			if len(closes) > 0 {
				viol("unexpected-connection-close-on-wire", "victim emitted CONNECTION_CLOSE (type %#x code %#x) although the cause is %s", closes[0].Type, closes[0].ErrorCode, got)
			}
		case len(closes) == 0:
			viol("no-connection-close-on-wire", "victim emitted no CONNECTION_CLOSE for %s", got)
		default:
			f := closes[0]
			kind := "transport"
			if f.Type == wiretap.FtConnCloseApp {
				kind = "app"
			}
			if w := fmt.Sprintf("%s:%#x", kind, f.ErrorCode); w != wantWire {
				viol("wrong-connection-close-on-wire|want="+wantWire, "victim emitted %s", w)
			}
		}
		l.Count("wire_close_checks", 1)
	}
	nb := len(cs.Blocked)
	c.Eval(fmt.Sprintf("%s/%s/%v/%s/t%v/m%d", cs.Cause, cs.Victim, cs.Blocked, cs.Client, cs.Transfer, cs.Multi))
	l.Count("cases_with_blocked_calls", int64(min(nb, 1)))
	c.Sample(cs.Cause, map[string]any{"case": cs.Name, "blocked": cs.Blocked, "cause": got, "ctx_done_after_trigger": (doneAt - trigger).String()})
}

// The close paths under the race detector (job built with -race): every cause x victim with all
// calls blocked, one call blocked, and a transfer in progress.
func TestVerifC17CloseRace(t *testing.T) {
	if !verifhook.Enabled {
		t.Fatal("built without -tags verif")
	}
	l := evlog.Open("C17")
	defer l.Close()
	var cases []c17Case
	idx := 0
	for rep := 0; rep < l.Pick(1, 30); rep++ {
		for _, cause := range []string{"local-close", "remote-close", "remote-close-lost", "idle-timeout", "stateless-reset", "transport-error", "transport-close"} {
			for _, victim := range []string{"client", "server"} {
				for si, s := range [][]string{c17Calls, {c17Calls[idx%len(c17Calls)]}, {"read", "write"}} {
					client := "plain"
					if victim == "client" && si == 0 {
						client = "Chrome_115_IPv4"
					}
					cases = append(cases, c17Case{Name: fmt.Sprintf("race/%s/%s/%d-%d", cause, victim, rep, si), Cause: cause, Victim: victim, Blocked: s,
						IdleMs: 1000, Client: client, Transfer: si == 2, HookSeed: uint64(idx)*31 + uint64(l.Seed())})
					idx++
				}
			}
		}
	}
	for i, cs := range cases {
		if !l.Mine(i) {
			continue
		}
		c := l.Begin("C17/"+cs.Name, cs)
		if c == nil {
			continue
		}
		synctest.Test(t, func(t *testing.T) { runC17(l, c, &cs) })
		c.End()
	}
}
