package quic_test

// C16, connection level (E1): "accepts from the peer every connection ID within the limit it advertised
// itself, and reports every sequence number it retires ... with RETIRE_CONNECTION_ID".
// A real client and a real server over the simulated network.  The victim's advertised
// active_connection_id_limit is read from the wire, as are the connection IDs the genuine peer has issued
// and the ones the victim has retired so far.  Then correctly protected packets carrying
// NEW_CONNECTION_ID frames are forged on behalf of the peer (conformant to the advertised limit: the
// number of IDs at or above the largest Retire Prior To never exceeds it), in any order, with duplicates
// and Retire Prior To jumps: the connection must stay up, every sequence number that the frames retire
// must appear in a RETIRE_CONNECTION_ID frame the victim emits, and the victim must go on sending to an
// ID that is still valid.  One frame beyond the limit may only end the connection with
// CONNECTION_ID_LIMIT_ERROR.  Passive part (every run with the wire observer, reported here and by the
// fault suite below): an endpoint never has more unretired connection IDs issued than the peer's
// active_connection_id_limit allows.

import (
	"context"
	"errors"
	"fmt"
	"math/rand/v2"
	"net"
	"sort"
	"testing"
	"testing/synctest"
	"time"

	quic "github.com/refraction-networking/uquic"
	"github.com/refraction-networking/uquic/internal/verif/evlog"
	"github.com/refraction-networking/uquic/internal/verif/quicworld"
	"github.com/refraction-networking/uquic/internal/verif/specgen"
	"github.com/refraction-networking/uquic/internal/verif/wiretap"
	tls "github.com/refraction-networking/utls"
)

type c16wCase struct {
	Name      string `json:"name"`
	Client    string `json:"client"` // plain | unil | QUICID | gen
	GenLimit  uint64 `json:"gen_limit,omitempty"` // generated spec: active_connection_id_limit (0: absent)
	Victim    string `json:"victim"`
	ServerCID int    `json:"server_cid_len"`
	ClientCID int    `json:"client_cid_len"`
	Script    string `json:"script"` // fill | rpt | rpt-all | rpt-steps
	Shuffle   bool   `json:"shuffle"`
	Dups      bool   `json:"dups"`
	Seed      uint64 `json:"seed"`
}

func TestVerifC16WireLimits(t *testing.T) {
	l := evlog.Open("C16")
	defer l.Close()
	var cases []c16wCase
	clients := append([]string{"plain", "unil"}, quicworld.QUICIDNames...)
	rng := l.Rand("c16wire")
	n := l.Pick(2000, 40000)
	for i := 0; i < n; i++ {
		cs := c16wCase{Client: clients[rng.IntN(len(clients))], Victim: []string{"client", "server"}[rng.IntN(2)], ServerCID: []int{4, 8, 20}[rng.IntN(3)], ClientCID: []int{4, 9, 20}[rng.IntN(3)],
			Script: []string{"fill", "rpt", "rpt-all", "rpt-steps"}[rng.IntN(4)], Shuffle: rng.IntN(2) == 0, Dups: rng.IntN(2) == 0, Seed: rng.Uint64()}
		if rng.IntN(3) == 0 {
			cs.Client = "gen"
			cs.GenLimit = []uint64{0, 2, 3, 4, 5, 6, 8}[rng.IntN(7)]
		}
		cs.Name = fmt.Sprintf("%05d/%s/%s/s%d-c%d/%s", i, cs.Client, cs.Victim, cs.ServerCID, cs.ClientCID, cs.Script)
		cases = append(cases, cs)
	}
	for i, cs := range cases {
		if !l.Mine(i) {
			continue
		}
		c := l.Begin("C16/wire/"+cs.Name, cs)
		if c == nil {
			continue
		}
		synctest.Test(t, func(t *testing.T) { runC16Wire(l, c, &cs) })
		c.End()
	}
}

// the passive invariant under network faults (loss, duplication, reordering of the genuine
// NEW_CONNECTION_ID / RETIRE_CONNECTION_ID exchange)
func TestVerifC16WireFaults(t *testing.T) {
	l := evlog.Open("C16")
	defer l.Close()
	clients := []quicworld.ClientSel{{Client: "plain"}, {Client: "unil"}, {Client: "Chrome_115_IPv4"}, {Client: "Firefox_116A"}}
	cases := quicworld.FaultSuite(l, clients, []string{"S2"}, l.Pick(3, 8), l.Pick(250, 4000), l.Pick(100, 3000), l.Pick(150, 3000))
	quicworld.RunSuite(t, l, cases, func(c *evlog.Case, cc *quicworld.ConnCase, r *quicworld.CaseResult) {
		fp := ""
		var checks int64
		for _, tp := range r.Taps {
			checks += tp.Counts["c16_issued_vs_limit_checks"]
		}
		if checks > 0 {
			fp = cc.Name
		}
		c.Eval(fp)
		l.Count("wire_issued_vs_limit_checks", checks)
		for _, tp := range r.Taps {
			for _, a := range tp.Anomalies {
				if a.Prop == "C16" {
					c.Violation(a.Sig, a.Detail, map[string]any{"wire": tp.Describe(40), "router": r.RouterLog})
				}
			}
		}
	})
}

func runC16Wire(l *evlog.Log, c *evlog.Case, cs *c16wCase) {
	var world *quicworld.World
	kind := cs.Client
	if kind != "plain" && kind != "unil" && kind != "gen" {
		kind = "parrot"
	}
	viol := func(sig, f string, a ...any) {
		tr := map[string]any{"case": cs}
		if world != nil {
			if taps := world.Wire.Snapshot(); len(taps) > 0 {
				tr["wire_tail"] = taps[len(taps)-1].Describe(20)
			}
		}
		c.Violation(fmt.Sprintf("C16|wire|%s|%s|%s|%s", sig, kind, cs.Victim, cs.Script), fmt.Sprintf(f, a...), tr)
	}
	victimIsClient := cs.Victim == "client"
	conf := func() *quic.Config { return &quic.Config{HandshakeIdleTimeout: 10 * time.Second, MaxIdleTimeout: 5 * time.Minute} }
	opt := quicworld.Options{RTT: 10 * time.Millisecond, ClientKind: cs.Client, ClientConf: conf(), ServerConf: conf(), ServerCIDLen: cs.ServerCID, ClientCIDLen: cs.ClientCID}
	var spec quic.QUICSpec
	switch cs.Client {
	case "plain", "unil":
	case "gen":
		tps := tls.TransportParameters{tls.MaxUDPPayloadSize(1472), tls.MaxIdleTimeout(300000),
			tls.InitialMaxData(1 << 20), tls.InitialMaxStreamDataBidiLocal(64 << 10), tls.InitialMaxStreamDataBidiRemote(64 << 10), tls.InitialMaxStreamDataUni(64 << 10),
			tls.InitialMaxStreamsBidi(16), tls.InitialMaxStreamsUni(16)}
		if cs.GenLimit > 0 {
			tps = append(tps, tls.ActiveConnectionIDLimit(cs.GenLimit))
		}
		spec = quic.QUICSpec{ClientHelloSpec: specgen.HelloSpec("small", append(tps, tls.InitialSourceConnectionID([]byte{})))}
		spec.InitialPacketSpec.SrcConnIDLength = cs.ClientCID
		opt.ClientKind, opt.Spec = "spec", &spec
	default:
		s, err := quic.QUICID2Spec(quicworld.QUICIDs[cs.Client])
		if err != nil {
			viol("harness", "%v", err)
			return
		}
		spec = s
		opt.ClientKind, opt.Spec = "spec", &spec
	}
	w, err := quicworld.New(opt)
	if err != nil {
		viol("harness", "world: %v", err)
		return
	}
	world = w
	defer func() {
		w.Close()
		time.Sleep(time.Minute)
		synctest.Wait()
		if lk := quicworld.BubbleGoroutines(); len(lk) > 0 {
			viol("leak|goroutines-alive-after-close", "%s", lk[0])
		}
	}()
	ctx, cancel := context.WithTimeout(context.Background(), 5*time.Minute)
	defer cancel()
	type acc struct {
		c   *quic.Conn
		err error
	}
	accCh := make(chan acc, 1)
	go func() {
		sc, err := w.Accept(ctx)
		accCh <- acc{sc, err}
	}()
	cc, err := w.Dial(ctx)
	if err != nil {
		cancel()
		<-accCh
		viol("dial-failed", "%v", err)
		return
	}
	a := <-accCh
	if a.err != nil {
		cc.CloseWithError(0, "")
		viol("accept-failed", "%v", a.err)
		return
	}
	sc := a.c
	victim := sc
	vdir := wiretap.S2C
	if victimIsClient {
		victim = cc
		vdir = wiretap.C2S
	}
	pdir := vdir.Other()
	defer func() {
		cc.CloseWithError(0, "")
		sc.CloseWithError(0, "")
	}()
	time.Sleep(300 * time.Millisecond)
	synctest.Wait()
	taps := w.Wire.Snapshot()
	if len(taps) == 0 {
		viol("harness", "no tap")
		return
	}
	tap := taps[len(taps)-1]

	// ---- what is on the wire so far
	w.Wire.Lock()
	vtp := tap.ServerTP
	peerCID := tap.ClientSCID
	if victimIsClient {
		vtp, peerCID = tap.ClientTP, tap.ServerSCID
	}
	if vtp == nil {
		w.Wire.Unlock()
		viol("harness", "the victim's transport parameters were not observed")
		return
	}
	limit := vtp.Int(wiretap.TPActiveConnIDLimit, 2)
	known := map[uint64][]byte{0: append([]byte(nil), peerCID...)} // sequence number -> ID, as issued to the victim
	for seq, cid := range tap.IssuedCIDs[pdir] {
		known[seq] = append([]byte(nil), cid...)
	}
	retiredBefore := map[uint64]bool{}
	for seq := range tap.RetiredSeqs[vdir] {
		retiredBefore[seq] = true
	}
	rpt := tap.RetirePrior[pdir]
	w.Wire.Unlock()
	if len(peerCID) == 0 {
		c.Eval("") // the peer uses zero-length connection IDs: it cannot issue any
		l.Count("wire_peer_zero_length_cid", 1)
		return
	}
	l.Count("wire_advertised_cid_limits_read", 1)
	top := uint64(0)
	for seq := range known {
		top = max(top, seq)
	}
	active := func(r uint64) int { // IDs the victim has to hold when everything below r is retired
		n := 0
		for seq := range known {
			if seq >= r && !retiredBefore[seq] {
				n++
			}
		}
		return n
	}
	if uint64(active(rpt)) > limit {
		viol("more-ids-issued-than-peer-limit", "the genuine peer has issued %d unretired connection IDs, the victim's advertised limit is %d", active(rpt), limit)
		return
	}

	// ---- the script of conformant frames
	rng := rand.New(rand.NewPCG(cs.Seed, 16))
	type ncid struct {
		seq, rpt uint64
		cid      []byte
		tok      [16]byte
	}
	var frames []ncid
	mk := func(seq, r uint64) ncid {
		f := ncid{seq: seq, rpt: r, cid: make([]byte, len(peerCID))}
		for i := range f.cid {
			f.cid[i] = byte(rng.Uint64())
		}
		f.cid[0] = 0xf0 | byte(seq&0x0f)
		for i := range f.tok {
			f.tok[i] = byte(rng.Uint64())
		}
		known[seq] = f.cid
		return f
	}
	fillTo := func(r uint64) {
		for uint64(active(r)) < limit {
			top++
			frames = append(frames, mk(top, r))
		}
	}
	var wantRetired uint64 // every known sequence number below this must be reported
	switch cs.Script {
	case "fill":
		fillTo(rpt)
	case "rpt":
		r := rpt + 1 + rng.Uint64()%(top+1-rpt)
		for uint64(active(r)) >= limit {
			r++
		}
		top++
		frames = append(frames, mk(top, r))
		wantRetired = r
		fillTo(r)
	case "rpt-all":
		top++
		frames = append(frames, mk(top, top)) // retires everything issued before, the active ID included
		wantRetired = top
		fillTo(top)
	case "rpt-steps":
		r := rpt
		for step := 0; step < 3; step++ {
			fillTo(r)
			r = min(r+1+rng.Uint64()%3, top+1)
			for uint64(active(r)) >= limit {
				r++ // the new frame's own ID must fit (sequence numbers already retired by the victim do not make room)
			}
			top++
			frames = append(frames, mk(top, r))
		}
		wantRetired = r
		fillTo(r)
	}
	order := make([]int, len(frames))
	for i := range order {
		order[i] = i
	}
	if cs.Shuffle && cs.Script != "rpt-steps" {
		// any order is conformant as long as the count stays within the limit at every step; with a single
		// Retire Prior To value that holds if the frame that carries it comes first
		rest := order
		if cs.Script != "fill" && len(order) > 0 {
			rest = order[1:]
		}
		for i := len(rest) - 1; i > 0; i-- {
			j := int(rng.Uint64() % uint64(i+1))
			rest[i], rest[j] = rest[j], rest[i]
		}
	}

	w.Router.SetBlackhole(vdir, true)
	defer w.Router.SetBlackhole(vdir, false)
	from, to := net.Addr(quicworld.ServerAddr), net.Addr(quicworld.ClientAddr)
	if !victimIsClient {
		from, to = to, from
	}
	inject := func(f ncid) bool {
		tap.RegisterForgedCID(pdir, f.cid)
		pkt, err := tap.ForgeShort(pdir, wiretap.NewConnectionIDFrame(f.seq, f.rpt, f.cid, f.tok))
		if err != nil {
			viol("harness", "forge: %v", err)
			return false
		}
		w.Router.Inject(pdir, from, to, pkt, 0)
		return true
	}
	for _, i := range order {
		if !inject(frames[i]) {
			return
		}
		if cs.Dups && rng.Uint64()%2 == 0 {
			inject(frames[i])
		}
		time.Sleep(15 * time.Millisecond)
	}
	if cs.Dups && len(frames) > 0 {
		inject(frames[0]) // a late retransmission of the first frame
	}
	time.Sleep(500 * time.Millisecond)
	synctest.Wait()
	w.Wire.Lock()
	nClose := len(tap.Closes[vdir])
	var missing []uint64
	for seq := range known {
		if seq < wantRetired && !tap.RetiredSeqs[vdir][seq] {
			missing = append(missing, seq)
		}
	}
	var spurious []uint64
	for seq := range tap.RetiredSeqs[vdir] {
		if seq >= wantRetired && !retiredBefore[seq] {
			spurious = append(spurious, seq)
		}
	}
	w.Wire.Unlock()
	sort.Slice(missing, func(i, j int) bool { return missing[i] < missing[j] })
	c.Eval(fmt.Sprintf("%s|%s|%s|lim%d|frames%d|shuffle%v|dups%v|scid%d", kind, cs.Victim, cs.Script, limit, min(len(frames), 6), cs.Shuffle, cs.Dups, len(peerCID)))
	if victim.Context().Err() != nil || nClose > 0 {
		viol("ids-within-advertised-limit-rejected", "%d NEW_CONNECTION_ID frames within the advertised limit %d (never more than %d IDs at or above Retire Prior To): the victim closed the connection: %v", len(frames), limit, limit, context.Cause(victim.Context()))
		return
	}
	l.Count("wire_conformant_ncid_frames_accepted", int64(len(frames)))
	if len(missing) > 0 {
		viol("retirement-not-reported", "Retire Prior To %d: sequence numbers %v were issued to the victim, but no RETIRE_CONNECTION_ID for them was emitted within 500 ms", wantRetired, missing)
		return
	}
	if wantRetired > 0 {
		l.Count("wire_retirements_reported", int64(wantRetired))
	}
	if len(spurious) > 0 {
		// retiring more than it was asked to is the victim's right (rotation), but not expected in this short run
		l.Count("wire_unrequested_retirements", int64(len(spurious)))
	}
	// the victim must now address the peer with an ID that is still valid: make it send something
	if wantRetired > 0 {
		go func() {
			if s, err := victim.OpenUniStream(); err == nil {
				s.Write([]byte("ping"))
			}
		}()
		time.Sleep(200 * time.Millisecond)
		synctest.Wait()
		w.Wire.Lock()
		cur := append([]byte(nil), tap.LastDCID[vdir]...)
		w.Wire.Unlock()
		okID := false
		for seq, cid := range known {
			if seq >= wantRetired && string(cid) == string(cur) {
				okID = true
			}
		}
		if !okID {
			viol("retired-id-still-in-use", "after Retire Prior To %d the victim addresses the peer with %x, which is not one of the IDs at or above that sequence number", wantRetired, cur)
			return
		}
		l.Count("wire_valid_id_in_use_after_retirement", 1)
	}

	// ---- one ID beyond the limit
	top++
	if !inject(mk(top, wantRetired)) {
		return
	}
	time.Sleep(300 * time.Millisecond)
	synctest.Wait()
	if victim.Context().Err() == nil {
		l.Count("wire_id_beyond_limit_tolerated", 1) // e.g. a spec advertising less than the implementation's own minimum
		return
	}
	cause := context.Cause(victim.Context())
	var te *quic.TransportError
	if !errors.As(cause, &te) || te.Remote || te.ErrorCode != quic.ConnectionIDLimitError {
		viol("wrong-error-for-id-beyond-limit", "an ID beyond the advertised limit %d ended the victim's connection with %v, want CONNECTION_ID_LIMIT_ERROR", limit, cause)
		return
	}
	l.Count("wire_connection_id_limit_errors_verified", 1)
}
