package quic_test

// C17, handshake phase: connections that end before (or just as) the handshake completes.
//
// Part A (Dial / Accept as the blocked calls): the cause - cancellation of the dial context, the
// server going silent, the client going silent, Transport.Close on the client - hits at a chosen
// instant relative to the handshake's progress (RTT 10 ms: first flight at 0, server flight
// emitted at 5 ms and delivered at 10 ms, client Finished delivered at 15 ms).
//
// Part B (early connections): a client connection obtained from DialEarly with a 0-RTT ticket, or
// a server connection obtained from an EarlyListener after the ClientHello, with stream / accept /
// open / datagram calls blocked on it, loses its peer before the handshake completes (or is
// closed locally, or its transport is closed).
//
// Oracle: Dial returns promptly with the cancellation / shutdown cause or within the handshake
// time-outs with a time-out cause, never earlier than HandshakeIdleTimeout after the last packet
// the client received; every blocked call returns with the one recorded cause; 5 min (virtual)
// later no connection ID is routed and no reset token registered on either transport; after the
// transports are closed no goroutine of the bubble survives.

import (
	"os"
	"context"
	"errors"
	"fmt"
	"sort"
	"sync"
	"testing"
	"testing/synctest"
	"time"

	tls "github.com/refraction-networking/utls"

	quic "github.com/refraction-networking/uquic"
	"github.com/refraction-networking/uquic/internal/verif/evlog"
	"github.com/refraction-networking/uquic/internal/verif/quicworld"
	"github.com/refraction-networking/uquic/internal/verif/simworld"
	"github.com/refraction-networking/uquic/internal/verif/wiretap"
	"github.com/refraction-networking/uquic/internal/verifhook"
)

type c17hsCase struct {
	Name     string   `json:"name"`
	Cause    string   `json:"cause"`
	Client   string   `json:"client"`
	AtUs     int      `json:"at_us"`
	Victim   string   `json:"victim,omitempty"` // part B: client | server
	Blocked  []string `json:"blocked,omitempty"`
	VNeg     bool     `json:"vneg,omitempty"` // the client offers v2 first, the server only speaks v1: the dial is re-created after a Version Negotiation packet
	HookSeed uint64   `json:"hook_seed"`
}

const (
	c17hsHandshakeIdle = 2 * time.Second
	c17hsIdle          = 5 * time.Second
)

func TestVerifC17Handshake(t *testing.T) {
	if !verifhook.Enabled {
		t.Fatal("built without -tags verif")
	}
	l := evlog.Open("C17")
	defer l.Close()
	var cases []c17hsCase
	idx := 0
	add := func(c c17hsCase) {
		c.HookSeed = uint64(idx)*104729 + uint64(l.Seed())
		idx++
		cases = append(cases, c)
	}
	ats := []int{0, 500, 2000, 4900, 5100, 7000, 9900, 10100, 12000, 14900, 15100, 20000, 26000}
	reps := l.Pick(1, 20)
	for rep := 0; rep < reps; rep++ {
		for _, cause := range []string{"dial-cancel", "server-silent", "client-silent", "transport-close", "handshake-stall", "server-transport-close"} {
			for _, cl := range []string{"plain", "unil", "Chrome_115_IPv4", "Firefox_116A"} {
				for _, at := range ats {
					if rep > 0 {
						at += 137 * rep
					}
					add(c17hsCase{Name: fmt.Sprintf("hs/%s/%s/at%dus/r%d", cause, cl, at, rep), Cause: cause, Client: cl, AtUs: at})
				}
			}
		}
	}
	// version negotiation: the first attempt ends with a Version Negotiation packet at 10 ms, the dial is
	// re-created and completes at about 20 ms; the cause hits around both instants
	for rep := 0; rep < l.Pick(3, 60); rep++ {
		for _, cause := range []string{"dial-cancel", "transport-close", "server-silent"} {
			for _, cl := range []string{"plain", "unil"} {
				for _, at := range []int{9000, 9900, 10000, 10050, 10400, 11000, 12500, 14000, 16000, 19900, 20100, 23000} {
					add(c17hsCase{Name: fmt.Sprintf("hs-vneg/%s/%s/at%dus/r%d", cause, cl, at+rep*61, rep), Cause: cause, Client: cl, AtUs: at + rep*61, VNeg: true})
				}
			}
		}
	}
	rng := l.Rand("c17hs")
	for rep := 0; rep < l.Pick(2, 40); rep++ {
		for _, victim := range []string{"client", "server"} {
			for _, cause := range []string{"peer-silent", "local-close", "transport-close"} {
				sets := [][]string{{}, c17Calls}
				for _, c := range c17Calls {
					sets = append(sets, []string{c})
				}
				for i := 0; i < 3; i++ {
					var s []string
					for _, c := range c17Calls {
						if rng.IntN(2) == 0 {
							s = append(s, c)
						}
					}
					sets = append(sets, s)
				}
				for si, s := range sets {
					cl := "plain"
					if si%3 == 1 {
						cl = "unil"
					}
					at := []int{100, 3000, 6000, 9000}[rng.IntN(4)]
					add(c17hsCase{Name: fmt.Sprintf("early/%s/%s/set%02d/r%d", cause, victim, si, rep), Cause: cause, Client: cl, Victim: victim, Blocked: s, AtUs: at})
				}
			}
		}
	}
	for i, cs := range cases {
		if !l.Mine(i) {
			continue
		}
		c := l.Begin("C17/"+cs.Name, cs)
		if c == nil {
			continue
		}
		synctest.Test(t, func(t *testing.T) {
			if cs.Victim == "" {
				runC17Dial(l, c, &cs)
			} else {
				runC17Early(l, c, &cs)
			}
		})
		c.End()
	}
}

func c17hsHooks(l *evlog.Log, seed uint64) func() {
	hr := l.Rand(fmt.Sprintf("hooks-hs-%d", seed))
	var hmu sync.Mutex
	verifhook.SetAction("*", func(string) {
		hmu.Lock()
		d := time.Duration(hr.IntN(4)) * time.Millisecond
		if hr.IntN(3) != 0 {
			d = 0
		}
		hmu.Unlock()
		if d > 0 {
			time.Sleep(d)
		}
	})
	return verifhook.ClearActions
}

// c17hsFinish is the common end of a case: everything is closed, then the routing tables and the
// goroutines are inspected.
func c17hsFinish(l *evlog.Log, w *quicworld.World, viol func(sig, f string, a ...any)) {
	time.Sleep(5 * time.Minute)
	synctest.Wait()
	for _, tr := range []struct {
		name string
		t    *quic.Transport
	}{{"client", w.ClientTr}, {"server", w.ServerTr}} {
		if tr.t == nil {
			continue
		}
		cids, closed, tokens := quic.VerifRouting(tr.t)
		l.Count("routing_tables_inspected", 1)
		if len(cids) > 0 || tokens > 0 {
			var ids []string
			for id := range cids {
				ids = append(ids, fmt.Sprintf("%x", id))
			}
			sort.Strings(ids)
			viol("leak|routing-entries-after-closing-period|"+tr.name, "5 min (virtual) after everything ended the %s transport still routes %d connection ID(s) %v (%d to closed-connection placeholders) and holds %d stateless reset token(s)", tr.name, len(cids), ids, closed, tokens)
		}
	}
	w.Close()
	time.Sleep(5 * time.Minute)
	synctest.Wait()
	if lk := quicworld.BubbleGoroutines(); len(lk) > 0 {
		viol("leak|goroutines-alive-after-close", "%d goroutine(s) still alive 5 min (virtual) after everything was closed:\n%s", len(lk), lk[0])
	}
}

func c17hsOptions(cs *c17hsCase) (quicworld.Options, error) {
	opt := quicworld.Options{RTT: 10 * time.Millisecond}
	opt.ClientConf = &quic.Config{HandshakeIdleTimeout: c17hsHandshakeIdle, MaxIdleTimeout: c17hsIdle, EnableDatagrams: true, MaxIncomingStreams: 2, MaxIncomingUniStreams: 1,
		InitialStreamReceiveWindow: 4096, MaxStreamReceiveWindow: 4096}
	opt.ServerConf = &quic.Config{HandshakeIdleTimeout: c17hsHandshakeIdle, MaxIdleTimeout: c17hsIdle, EnableDatagrams: true, MaxIncomingStreams: 2, MaxIncomingUniStreams: 1,
		InitialStreamReceiveWindow: 4096, MaxStreamReceiveWindow: 4096, Allow0RTT: true}
	if cs.VNeg {
		opt.ServerConf.Versions = []quic.Version{quic.Version1}
		opt.ClientConf.Versions = []quic.Version{quic.Version2, quic.Version1}
	}
	switch cs.Client {
	case "plain":
	case "unil":
		opt.ClientKind = "unil"
	default:
		spec, err := quic.QUICID2Spec(quicworld.QUICIDs[cs.Client])
		if err != nil {
			return opt, err
		}
		opt.ClientKind, opt.Spec = "spec", &spec
	}
	return opt, nil
}

// ---- part A -----------------------------------------------------------------------------------

func runC17Dial(l *evlog.Log, c *evlog.Case, cs *c17hsCase) {
	defer c17hsHooks(l, cs.HookSeed)()
	var w *quicworld.World
	viol := func(sig, f string, a ...any) {
		tr := map[string]any{"case": cs}
		if w != nil && w.Wire != nil {
			if taps := w.Wire.Snapshot(); len(taps) > 0 {
				tr["wire_tail"] = taps[len(taps)-1].Describe(25)
			}
		}
		c.Violation("C17|hs-"+cs.Cause+"|"+sig, fmt.Sprintf(f, a...), tr)
	}
	opt, err := c17hsOptions(cs)
	if err != nil {
		viol("harness", "options: %v", err)
		return
	}
	w, err = quicworld.New(opt)
	if err != nil {
		viol("harness", "world: %v", err)
		return
	}
	defer c17hsFinish(l, w, viol)
	var rmu sync.Mutex
	var lastRecvClient time.Duration = -1
	var firstAESendAfterRecv time.Duration = -1
	w.Router.SetOnDeliver(func(d *wiretap.DatagramInfo, mod wiretap.Mod) {
		if d.Dir == wiretap.S2C {
			// a Version Negotiation packet either ends the attempt it answers or is ignored: it never restarts
			// the idle period of the connection that the dial ends up with
			vnOnly := len(d.Packets) > 0
			for _, p := range d.Packets {
				vnOnly = vnOnly && p.Kind == wiretap.KindVN
			}
			if vnOnly {
				return
			}
			rmu.Lock()
			lastRecvClient = w.Router.Now()
			firstAESendAfterRecv = -1
			rmu.Unlock()
		}
	})
	var stallHook func(d *wiretap.DatagramInfo)
	if cs.Cause == "handshake-stall" {
		// The server's packets never arrive; instead somebody keeps sending well-formed Initial packets
		// (the Initial keys are public) that carry only a PING: the client keeps receiving packets, so the
		// idle timer never fires, but the handshake makes no progress: it must give up after the
		// handshake timeout (twice HandshakeIdleTimeout).
		w.Router.SetBlackhole(wiretap.S2C, true)
		var once sync.Once
		stop := make(chan struct{})
		defer close(stop)
		stallHook = func(d *wiretap.DatagramInfo) {
			if len(d.Packets) == 0 || d.Packets[0].Kind != wiretap.KindInitial {
				return
			}
			first := d.Packets[0]
			ver, odcid, cscid := first.Version, append([]byte(nil), first.DCID...), append([]byte(nil), first.SCID...)
			once.Do(func() {
				go func() {
					period := 300*time.Millisecond + time.Duration(cs.AtUs)*10*time.Microsecond
					for pn := uint64(1); pn < 40; pn++ {
						pkt := wiretap.InitialPacket(ver, wiretap.S2C, odcid, cscid, []byte{8, 7, 6, 5, 4, 3, 2, 1}, nil, pn, []byte{0x01}, 1200)
						w.Router.Inject(wiretap.S2C, quicworld.ServerAddr, quicworld.ClientAddr, pkt, 0)
						l.Count("hs_stall_pings_injected", 1)
						select {
						case <-stop:
							return
						case <-time.After(period):
						}
					}
				}()
			})
		}
	}
	w.Router.SetOnEmit(func(d *wiretap.DatagramInfo) *simworld.Action {
		if d.Dir == wiretap.C2S {
			ae := false
			for _, p := range d.Packets {
				ae = ae || p.AckElic
			}
			rmu.Lock()
			if ae && firstAESendAfterRecv < 0 {
				firstAESendAfterRecv = w.Router.Now()
			}
			rmu.Unlock()
			if stallHook != nil {
				stallHook(d)
			}
		}
		return nil
	})

	ctx, cancel := context.WithCancel(context.Background())
	defer cancel()
	actx, acancel := context.WithCancel(context.Background())
	defer acancel()
	type res struct {
		conn   *quic.Conn
		err    error
		at     time.Duration
		routed int // connection IDs the client transport still routes to a live connection at the instant Dial returned an error
	}
	accCh := make(chan res, 1)
	go func() {
		sc, err := w.Accept(actx)
		accCh <- res{conn: sc, err: err, at: w.Router.Now()}
	}()
	dialCh := make(chan res, 1)
	t0 := w.Router.Now()
	go func() {
		cc, err := w.Dial(ctx)
		r := res{conn: cc, err: err, at: w.Router.Now()}
		if err != nil {
			// entries that route to a closed-connection placeholder are not counted: a close that leaves one
			// behind for its closing period is legal, a live connection after a failed Dial is not
			cids, closed, tokens := quic.VerifRouting(w.ClientTr)
			r.routed = len(cids) - closed + tokens
		}
		dialCh <- r
	}()
	time.Sleep(time.Duration(cs.AtUs) * time.Microsecond)
	trigger := w.Router.Now()
	serverClosed := make(chan struct{})
	switch cs.Cause {
	case "dial-cancel":
		cancel()
	case "server-silent":
		w.Router.SetBlackhole(wiretap.S2C, true)
	case "client-silent":
		w.Router.SetBlackhole(wiretap.C2S, true)
	case "transport-close":
		go w.ClientTr.Close()
	case "server-transport-close":
		// the server's transport is closed while its side of the handshake is in flight: Close must return
		go func() {
			w.ServerTr.Close()
			close(serverClosed)
		}()
		if ok, deadlock := quicworld.AwaitOrDeadlock(serverClosed, 5*time.Second); ok {
			l.Count("hs_server_transport_closed_mid_handshake", 1)
		} else if deadlock != "" {
			viol("transport-close-deadlock", "the server's Transport.Close, called %s into a handshake, does not return: goroutines wait for a lock that is never released:\n%s", trigger-t0, deadlock)
			// the bubble can never end: leave the process (every log line is flushed; the runner continues behind this case)
			os.Exit(3)
		} else {
			viol("transport-close-hung", "the server's Transport.Close has not returned 5 s (virtual) after it was called %s into a handshake", trigger-t0)
		}
	}
	// ---- Dial
	limit := 2*c17hsHandshakeIdle + time.Second
	var d res
	select {
	case d = <-dialCh:
	case <-time.After(limit):
		viol("dial-hung", "Dial has not returned %s after it was called (cause at %s)", limit, trigger-t0)
		cancel()
		d = <-dialCh
	}
	class := c17ErrClass(d.err)
	outcome := class
	if d.err != nil {
		// a failed Dial waits for the connection's run loop: when it returns, the connection is gone
		l.Count("hs_failed_dials_checked_for_teardown", 1)
		if d.routed > 0 {
			viol("dial-returned-before-teardown", "Dial returned %v while the client transport still routed %d connection IDs / reset tokens to a live connection", d.err, d.routed)
		}
	}
	switch {
	case d.err == nil:
		outcome = "completed"
	case cs.Cause == "dial-cancel":
		if d.at < trigger {
			viol("dial-failed-before-cause", "Dial returned %v at %s, before the context was cancelled at %s", d.err, d.at-t0, trigger-t0)
		}
		if class != "context-canceled" {
			viol("wrong-cause|want=context-canceled", "Dial returned %s (%v) after its context was cancelled", class, d.err)
		}
		if d.at-trigger > 100*time.Millisecond {
			viol("dial-returned-late", "Dial returned %s after its context was cancelled", d.at-trigger)
		}
	case cs.Cause == "transport-close":
		if class != "transport-closed" {
			viol("wrong-cause|want=transport-closed", "Dial returned %s (%v) after Transport.Close", class, d.err)
		}
		if d.at-trigger > 100*time.Millisecond {
			viol("dial-returned-late", "Dial returned %s after Transport.Close", d.at-trigger)
		}
	case cs.Cause == "server-transport-close":
		// the client learns it through a CONNECTION_CLOSE / stateless reset, or not at all (time-out)
		l.Count("hs_server_close_dial_"+class, 1)
	default: // a silent peer: one of the two time-outs, no earlier than HandshakeIdleTimeout after the last packet received
		if class != "idle-timeout" && class != "handshake-timeout" {
			viol("wrong-cause|want=timeout", "Dial returned %s (%v) although the peer only went silent", class, d.err)
		}
		rmu.Lock()
		lr, fs := lastRecvClient, firstAESendAfterRecv
		rmu.Unlock()
		ref := t0
		if lr > ref {
			ref = lr
		}
		if class == "idle-timeout" && d.at < ref+c17hsHandshakeIdle {
			viol("handshake-idle-timeout-too-early", "Dial gave up with an idle timeout %s after the last packet the client received (HandshakeIdleTimeout %s)", d.at-ref, c17hsHandshakeIdle)
		}
		// the idle period restarts with the first ack-eliciting packet sent after the last one received
		if fs > ref {
			ref = fs
		}
		if class == "idle-timeout" && d.at > ref+c17hsHandshakeIdle+150*time.Millisecond {
			viol("handshake-idle-timeout-too-late", "Dial gave up with an idle timeout %s after the last activity (HandshakeIdleTimeout %s)", d.at-ref, c17hsHandshakeIdle)
		}
		if class == "handshake-timeout" && d.at-t0 < 2*c17hsHandshakeIdle {
			viol("handshake-timeout-too-early", "Dial gave up with a handshake timeout after %s (handshake timeout %s)", d.at-t0, 2*c17hsHandshakeIdle)
		}
		if class == "handshake-timeout" && d.at-t0 > 2*c17hsHandshakeIdle+150*time.Millisecond {
			viol("handshake-timeout-too-late", "Dial gave up with a handshake timeout after %s (handshake timeout %s)", d.at-t0, 2*c17hsHandshakeIdle)
		}
		if cs.Cause == "handshake-stall" && class != "handshake-timeout" {
			viol("wrong-cause|want=handshake-timeout", "Dial returned %s although packets kept arriving every 0.3-0.6 s", class)
		}
		l.Count("handshake_timeouts_timed", 1)
	}
	// ---- a connection that did complete ends according to the cause as well
	if d.err == nil {
		cc := d.conn
		want := ""
		switch cs.Cause {
		case "dial-cancel":
			// the cancelled dial context must not end an established connection
			select {
			case <-cc.Context().Done():
				viol("established-connection-ended-by-dial-context", "connection ended with %v after the (already returned) Dial's context was cancelled", context.Cause(cc.Context()))
			case <-time.After(time.Second):
			}
			cc.CloseWithError(0, "")
		case "transport-close":
			want = "transport-closed"
		case "server-transport-close":
			want = "any" // a close sent by the server's connections, a stateless reset or the idle timeout
		default:
			want = "idle-timeout"
		}
		if want != "" {
			select {
			case <-cc.Context().Done():
				if got := c17ErrClass(context.Cause(cc.Context())); got != want && want != "any" {
					viol("wrong-cause|want="+want, "established connection ended with %s (%v)", got, context.Cause(cc.Context()))
				}
			case <-time.After(c17hsIdle + 30*time.Second):
				viol("cause-not-recorded", "established connection still alive %s after the cause", c17hsIdle+30*time.Second)
				cc.CloseWithError(0, "")
			}
		}
	}
	// ---- the server side: Accept returns a connection or nothing, and whatever it returned ends
	time.Sleep(2*c17hsHandshakeIdle + c17hsIdle + 5*time.Second)
	acancel()
	a := <-accCh
	if a.conn != nil {
		select {
		case <-a.conn.Context().Done():
		default:
			{
				// the client is gone (or silent) for longer than every time-out
				viol("server-connection-outlives-timeouts", "accepted connection still alive %s after the cause", w.Router.Now()-trigger)
			}
			a.conn.CloseWithError(0, "")
		}
		l.Count("hs_accept_returned_connection", 1)
	}
	if cs.VNeg {
		// the attempt that a genuine Version Negotiation packet ended is re-created, not closed: no
		// CONNECTION_CLOSE is due for it (the server does not even speak its version)
		if taps := w.Wire.Snapshot(); len(taps) > 0 {
			w.Wire.Lock()
			first := taps[0]
			closes := append([]wiretap.Frame(nil), first.Closes[wiretap.C2S]...)
			ver := first.Version
			w.Wire.Unlock()
			l.Count("hs_vneg_first_attempts_inspected", 1)
			if len(closes) > 0 && ver != 1 {
				viol("connection-close-for-recreated-attempt", "the attempt in version %#x that ended with a Version Negotiation packet emitted CONNECTION_CLOSE (type %#x, code %#x, %q)", ver, closes[0].Type, closes[0].ErrorCode, closes[0].Reason)
			}
		}
	}
	c.Eval(fmt.Sprintf("hs/%s/%s/%d/%s/vneg=%v", cs.Cause, cs.Client, cs.AtUs, outcome, cs.VNeg))
	l.Count("hs_outcome_"+outcome, 1)
	c.Sample("hs-"+cs.Cause, map[string]any{"case": cs.Name, "outcome": outcome, "dial_returned_after": (d.at - t0).String()})
}

// ---- part B -----------------------------------------------------------------------------------

func runC17Early(l *evlog.Log, c *evlog.Case, cs *c17hsCase) {
	defer c17hsHooks(l, cs.HookSeed)()
	var w *quicworld.World
	viol := func(sig, f string, a ...any) {
		tr := map[string]any{"case": cs}
		if w != nil && w.Wire != nil {
			if taps := w.Wire.Snapshot(); len(taps) > 0 {
				tr["wire_tail"] = taps[len(taps)-1].Describe(25)
			}
		}
		c.Violation("C17|early-"+cs.Cause+"|"+sig, fmt.Sprintf(f, a...), tr)
	}
	opt, err := c17hsOptions(cs)
	if err != nil {
		viol("harness", "options: %v", err)
		return
	}
	cache := tls.NewLRUClientSessionCache(10)
	opt.ClientTLS = func(c *tls.Config) { c.ClientSessionCache = cache }
	opt.Early = true
	w, err = quicworld.New(opt)
	if err != nil {
		viol("harness", "world: %v", err)
		return
	}
	defer c17hsFinish(l, w, viol)
	victimIsClient := cs.Victim == "client"
	bg := context.Background()

	// ---- priming connection: the client obtains a session ticket (needed for a 0-RTT connection)
	if victimIsClient {
		ctx, cancel := context.WithTimeout(bg, 20*time.Second)
		done := make(chan *quic.Conn, 1)
		go func() {
			sc, _ := w.Accept(ctx)
			done <- sc
		}()
		cc, err := w.Dial(ctx)
		sc := <-done
		if err != nil || sc == nil {
			cancel()
			viol("harness|priming-failed", "priming connection: %v", err)
			return
		}
		select {
		case <-cc.HandshakeComplete():
		case <-time.After(time.Second):
		}
		time.Sleep(200 * time.Millisecond)
		cc.CloseWithError(0, "")
		sc.CloseWithError(0, "")
		cancel()
		time.Sleep(time.Second)
	}

	var rmu sync.Mutex
	var lastRecv time.Duration = -1
	toVictim := wiretap.C2S
	if victimIsClient {
		toVictim = wiretap.S2C
	}
	w.Router.SetOnDeliver(func(d *wiretap.DatagramInfo, mod wiretap.Mod) {
		if d.Dir == toVictim {
			rmu.Lock()
			lastRecv = w.Router.Now()
			rmu.Unlock()
		}
	})
	// the peer of an early client must never answer; the peer of an early server goes silent at AtUs
	if victimIsClient && cs.Cause == "peer-silent" {
		w.Router.SetBlackhole(wiretap.S2C, true)
	}
	ctx, cancel := context.WithTimeout(bg, 60*time.Second)
	defer cancel()
	actx, acancel := context.WithCancel(bg)
	defer acancel()
	accCh := make(chan *quic.Conn, 1)
	go func() {
		sc, _ := w.Accept(actx)
		accCh <- sc
	}()
	t0 := w.Router.Now()
	dialCh := make(chan *quic.Conn, 1)
	var dialErr error
	go func() {
		cc, err := w.DialEarly(ctx)
		dialErr = err
		dialCh <- cc
	}()
	var victim, other *quic.Conn
	if victimIsClient {
		select {
		case victim = <-dialCh:
		case <-time.After(time.Second):
		}
		if victim == nil {
			// no 0-RTT connection (no usable ticket): nothing to observe in this case
			c.Eval("")
			l.Count("early_no_0rtt_connection", 1)
			cancel()
			<-dialCh
			acancel()
			if sc := <-accCh; sc != nil {
				sc.CloseWithError(0, "")
			}
			_ = dialErr
			return
		}
		select {
		case <-victim.HandshakeComplete():
			viol("harness|handshake-completed", "the early connection completed its handshake although the server is silent")
			return
		default:
		}
	} else {
		select {
		case victim = <-accCh:
		case <-time.After(time.Second):
		}
		if victim == nil {
			viol("harness|no-early-accept", "EarlyListener.Accept returned nothing within 1 s")
			cancel()
			<-dialCh
			return
		}
	}
	defer func() {
		victim.CloseWithError(0, "")
		if other != nil {
			other.CloseWithError(0, "")
		}
		cancel()
		acancel()
	}()

	// ---- block calls on the early connection.  Stream limits and windows are the remembered (client)
	// or just received (server) transport parameters: 2 bidirectional streams, 1 unidirectional, 4096 bytes.
	start := w.Router.Now
	var mu sync.Mutex
	rets := map[string]*c17Ret{}
	var wg sync.WaitGroup
	run := func(name string, f func() error) {
		r := &c17Ret{call: name}
		mu.Lock()
		rets[name] = r
		mu.Unlock()
		wg.Add(1)
		go func() {
			defer wg.Done()
			err := f()
			mu.Lock()
			r.at, r.err, r.ok = start(), err, true
			mu.Unlock()
		}()
	}
	s1, err1 := victim.OpenStreamSync(ctx)
	s2, err2 := victim.OpenStreamSync(ctx)
	u1, err3 := victim.OpenUniStreamSync(ctx)
	if err1 != nil || err2 != nil || err3 != nil {
		viol("harness|setup", "opening streams on the early connection: %v %v %v", err1, err2, err3)
		return
	}
	s1.Write([]byte{1})
	u1.Write([]byte{3})
	for _, b := range cs.Blocked {
		switch b {
		case "read":
			run(b, func() error { _, err := s1.Read(make([]byte, 10)); return err })
		case "write":
			run(b, func() error { _, err := s2.Write(make([]byte, 256<<10)); return err })
		case "accept":
			run(b, func() error { _, err := victim.AcceptStream(bg); return err })
		case "acceptuni":
			run(b, func() error { _, err := victim.AcceptUniStream(bg); return err })
		case "opensync":
			run(b, func() error { _, err := victim.OpenStreamSync(bg); return err })
		case "openunisync":
			run(b, func() error { _, err := victim.OpenUniStreamSync(bg); return err })
		case "rcvdgram":
			run(b, func() error { _, err := victim.ReceiveDatagram(bg); return err })
		}
	}
	// the cause hits AtUs after the dial started (the early server connection exists from 5 ms on)
	if now := w.Router.Now() - t0; now < time.Duration(cs.AtUs)*time.Microsecond {
		time.Sleep(time.Duration(cs.AtUs)*time.Microsecond - now)
	}
	select {
	case <-victim.HandshakeComplete():
		// (server victim, late cause) the handshake got through: the case degenerates to the established ones
		c.Eval("")
		l.Count("early_handshake_completed_before_cause", 1)
		victim.CloseWithError(0, "")
		wg.Wait()
		if !victimIsClient {
			other = <-dialCh
		}
		return
	default:
	}
	mu.Lock()
	for name, r := range rets {
		if r.ok {
			mu.Unlock()
			viol("harness|call-did-not-block", "%s returned before any close cause: %v", name, r.err)
			return
		}
	}
	mu.Unlock()
	var ctxDoneAt time.Duration = -1
	ctxWatch := make(chan struct{})
	go func() {
		<-victim.Context().Done()
		mu.Lock()
		ctxDoneAt = start()
		mu.Unlock()
		close(ctxWatch)
	}()
	trigger := start()
	want := ""
	maxWait := time.Second
	switch cs.Cause {
	case "peer-silent":
		if !victimIsClient {
			w.Router.SetBlackhole(wiretap.C2S, true)
		}
		want = "timeout"
		maxWait = 2*c17hsHandshakeIdle + time.Second
	case "local-close":
		victim.CloseWithError(0x77, "early bye")
		want = fmt.Sprintf("application(remote=false,code=%#x,msg=%q)", 0x77, "early bye")
	case "transport-close":
		go func() {
			if victimIsClient {
				w.ClientTr.Close()
			} else {
				w.ServerTr.Close()
			}
		}()
		want = "transport-closed"
	}
	select {
	case <-ctxWatch:
	case <-time.After(maxWait + time.Second):
		viol("cause-not-recorded", "context of the early connection not cancelled %s after the trigger", maxWait+time.Second)
		victim.CloseWithError(0, "")
		<-ctxWatch
		wg.Wait()
		if !victimIsClient {
			cancel()
			other = <-dialCh
		}
		return
	}
	cause := context.Cause(victim.Context())
	got := c17ErrClass(cause)
	mu.Lock()
	doneAt := ctxDoneAt
	mu.Unlock()
	switch {
	case want == "timeout":
		if got != "idle-timeout" && got != "handshake-timeout" {
			viol("wrong-cause|want=timeout", "context cause is %s (%v)", got, cause)
		}
		rmu.Lock()
		lr := lastRecv
		rmu.Unlock()
		if got == "idle-timeout" && lr >= 0 && doneAt < lr+c17hsHandshakeIdle {
			viol("handshake-idle-timeout-too-early", "the early connection gave up %s after the last packet it received (HandshakeIdleTimeout %s)", doneAt-lr, c17hsHandshakeIdle)
		}
		l.Count("handshake_timeouts_timed", 1)
	case got != want:
		viol("wrong-cause|want="+want, "context cause is %s (%v)", got, cause)
	default:
		if doneAt-trigger > time.Second {
			viol("cause-recorded-late", "context cancelled %s after the trigger", doneAt-trigger)
		}
	}
	retDone := make(chan struct{})
	go func() { wg.Wait(); close(retDone) }()
	select {
	case <-retDone:
	case <-time.After(time.Second):
	}
	mu.Lock()
	for name, r := range rets {
		if !r.ok {
			viol("call-still-blocked|"+name, "%s still blocked 1 s (virtual) after the connection context was cancelled with %v", name, cause)
			continue
		}
		if r.at-doneAt > time.Second {
			viol("call-returned-late|"+name, "%s returned %s after the context was cancelled", name, r.at-doneAt)
		}
		if ec := c17ErrClass(r.err); ec != got {
			viol("call-error-differs-from-cause|"+name, "%s returned %s (%v); recorded cause %s", name, ec, r.err, got)
		}
		l.Count("blocked_calls_checked", 1)
	}
	mu.Unlock()
	select {
	case <-retDone:
	default:
		s1.CancelRead(0)
		s2.CancelWrite(0)
		<-retDone
	}
	later := map[string]func() error{
		"OpenStream":      func() error { _, err := victim.OpenStream(); return err },
		"OpenStreamSync":  func() error { _, err := victim.OpenStreamSync(bg); return err },
		"AcceptStream":    func() error { _, err := victim.AcceptStream(bg); return err },
		"ReceiveDatagram": func() error { _, err := victim.ReceiveDatagram(bg); return err },
		"SendDatagram":    func() error { return victim.SendDatagram([]byte("x")) },
		"Read":            func() error { _, err := s1.Read(make([]byte, 1)); return err },
		"Write":           func() error { _, err := s1.Write([]byte("x")); return err },
	}
	for name, f := range later {
		ch := make(chan error, 1)
		go func() { ch <- f() }()
		select {
		case err := <-ch:
			if err == nil {
				viol("later-call-succeeded|"+name, "%s succeeded after the connection ended with %v", name, cause)
			} else if ec := c17ErrClass(err); ec != got {
				viol("later-call-error-differs-from-cause|"+name, "%s returned %s (%v); recorded cause %s", name, ec, err, got)
			}
			l.Count("later_calls_checked", 1)
		case <-time.After(time.Second):
			viol("later-call-blocked|"+name, "%s blocked after the connection ended with %v", name, cause)
			go func() { <-ch }()
		}
	}
	// the other side's calls return too (its own time-outs)
	if victimIsClient {
		acancel()
		other = <-accCh
	} else {
		select {
		case other = <-dialCh:
		case <-time.After(2*c17hsHandshakeIdle + c17hsIdle + 5*time.Second):
			viol("dial-hung", "the client's DialEarly has not returned %s after its peer ended", 2*c17hsHandshakeIdle+c17hsIdle+5*time.Second)
			cancel()
			other = <-dialCh
		}
	}
	if errors.Is(dialErr, context.DeadlineExceeded) {
		viol("dial-hung", "DialEarly only returned when the 60 s watchdog context expired")
	}
	c.Eval(fmt.Sprintf("early/%s/%s/%v/%s", cs.Cause, cs.Victim, cs.Blocked, cs.Client))
	l.Count("early_cases_with_blocked_calls", int64(min(len(cs.Blocked), 1)))
	c.Sample("early-"+cs.Cause, map[string]any{"case": cs.Name, "blocked": cs.Blocked, "cause": got, "ctx_done_after_trigger": (doneAt - trigger).String()})
}
