package http3_test

// C18 — hostile-peer and abort cases: case list, dispatcher, real-against-real aborts, parent test.

import (
	"bytes"
	"context"
	"fmt"
	"math/rand/v2"
	"net/http"
	"testing"
	"time"

	"github.com/refraction-networking/uquic/http3"
	"github.com/refraction-networking/uquic/internal/verif/evlog"
	"github.com/refraction-networking/uquic/internal/verif/quicworld"
	"github.com/refraction-networking/uquic/internal/verif/simworld"
	"github.com/refraction-networking/uquic/internal/verif/wiretap"
)

func c18RunPeerCase(r *c18PeerRun) {
	switch r.pc.Target {
	case "server":
		c18RunSrvCase(r)
	case "client":
		c18RunCliCase(r)
	case "both":
		c18RunBothCase(r)
	default:
		r.eval("", r.viol("harness|peer-world", "unknown target %q", r.pc.Target))
	}
}

// c18RunBothCase: real client and real server; the exchange is aborted A ms (virtual) after it started.
func c18RunBothCase(r *c18PeerRun) {
	pc := r.pc
	rng := rand.New(rand.NewPCG(pc.Seed, 0xb07))
	actions := []string{"cancel-request", "transport-close", "server-close", "blackhole"}
	act := actions[pc.B%len(actions)]
	opt, _ := c18WorldOptions("plain", 10, simworld.Schedule{}, false)
	if act == "blackhole" {
		opt.ServerConf.MaxIdleTimeout, opt.ClientConf.MaxIdleTimeout, opt.ClientConf.KeepAlivePeriod = 5*time.Second, 5*time.Second, 0
	}
	w, err := quicworld.New(opt)
	if err != nil {
		r.eval("", r.viol("harness|peer-world", "%v", err))
		return
	}
	lg := c18Logger(pc.Logger)
	h := c18NewHandler(false)
	srv := &http3.Server{Handler: h, Logger: lg}
	serveDone := make(chan error, 1)
	go func() { serveDone <- srv.ServeListener(w.Listener) }()
	dialer := &c18Dialer{w: w}
	tr := &http3.Transport{Logger: lg, Dial: dialer.dial}

	// warm-up exchange so that the abort hits an established connection in most cases
	if pc.C%2 == 0 {
		ex0 := c18GenExchange(rng, 100, false, 0)
		so0 := h.register(&ex0)
		co0 := c18DoExchange(context.Background(), tr, &ex0)
		if so0.called() {
			<-so0.done
		}
		r.eval("abort/warm-up", c18Compare(&ex0, false, so0, co0)...)
	}
	ex := c18GenExchange(rng, 0, false, 0)
	ex.Method, ex.Status, ex.ExplicitWH, ex.Gzip = "POST", 200, true, ""
	ex.ReqBody, ex.RespBody = 20000+rng.IntN(150000), 20000+rng.IntN(150000)
	ex.ReqChunks, ex.RespChunks = []int{1000 + rng.IntN(8000)}, []int{500 + rng.IntN(8000)}
	ex.ReadBuf, ex.ClientReadBuf = 4096, 4096
	ex.ReqCLDelta, ex.RespCLDelta = 0, 0
	if pc.Trailers {
		ex.DeclTrailers, ex.PrefixTrailers = []c18KV{{"X-Trailer-A", []string{"a"}}}, []c18KV{{"X-Trailer-B", []string{"b"}}}
		ex.ReqTrailers, ex.ReqDeclared = []c18KV{{"X-Req-Trailer", []string{"q"}}}, false
	} else {
		ex.DeclTrailers, ex.PrefixTrailers, ex.ReqTrailers = nil, nil, nil
	}
	so := h.register(&ex)
	ctx, cancel := context.WithCancel(context.Background())
	abortDone := make(chan struct{})
	go func() {
		defer close(abortDone)
		time.Sleep(time.Duration(pc.A) * time.Millisecond)
		switch act {
		case "cancel-request":
			cancel()
		case "transport-close":
			tr.Close()
		case "server-close":
			srv.Close()
		case "blackhole":
			w.Router.SetBlackhole(wiretap.C2S, true)
			w.Router.SetBlackhole(wiretap.S2C, true)
		}
	}()
	co := c18DoExchange(ctx, tr, &ex)
	<-abortDone
	var vs []c18Viol
	handlerDone := true
	if so.called() {
		select {
		case <-so.done:
		case <-time.After(90 * time.Second):
			handlerDone = false
			vs = append(vs, r.viol("server|handler-did-not-return", "90 s (virtual) after %s at %d ms", act, pc.A))
		}
	}
	if !handlerDone {
		so = &c18ServerObs{}
	}
	if so.Panic != "" {
		tail, _ := c18ClassifyPanic("panic: " + so.Panic)
		vs = append(vs, r.viol("server|"+tail, "recovered in the handler goroutine after %s at %d ms: %s", act, pc.A, so.Panic))
	}
	if len(so.Body) > 0 && !bytes.HasPrefix(ex.reqBytes(), so.Body) {
		vs = append(vs, r.viol("request|body", "after %s at %d ms the %d bytes the handler read are not a prefix of the request body", act, pc.A, len(so.Body)))
	}
	completeAtServer := so.ReadDone && so.ReadErr == ""
	if completeAtServer && !bytes.Equal(so.Body, ex.reqBytes()) {
		vs = append(vs, r.viol("server|aborted-request-read-as-complete", "after %s at %d ms the handler read %d of %d bytes and a clean io.EOF", act, pc.A, len(so.Body), ex.ReqBody))
	}
	if co.Err == "" {
		if len(co.Body) > 0 && !bytes.HasPrefix(ex.respPlain(), co.Body) {
			vs = append(vs, r.viol("response|body", "after %s at %d ms the %d bytes the client read are not a prefix of the response body", act, pc.A, len(co.Body)))
		}
		if co.ReadErr == "" && len(co.Body) != ex.RespBody {
			vs = append(vs, r.viol("client|aborted-response-read-as-complete", "after %s at %d ms the client read %d of %d bytes and a clean io.EOF", act, pc.A, len(co.Body), ex.RespBody))
		}
	}
	outcome := "error"
	if co.Err == "" && co.ReadErr == "" {
		outcome = "completed"
	}
	r.eval(fmt.Sprintf("abort/%s/%d/%s", act, min(pc.A, 60), outcome), vs...)
	r.count("peer_aborts_both", 1)
	cancel()
	if act == "cancel-request" { // the connection must still be good
		ex2 := c18GenExchange(rng, 1, false, 0)
		so2 := h.register(&ex2)
		co2 := c18DoExchange(context.Background(), tr, &ex2)
		if co2.Err != "" && !so2.called() && co.Err != "" {
			// The cancelled request was the one that dialled: the Transport hands its dial error to the next
			// request once (connection pooling, not part of C18).  The request after that must work.
			r.count("peer_follow_up_retried_after_cancelled_dial", 1)
			ex2 = c18GenExchange(rng, 2, false, 0)
			so2 = h.register(&ex2)
			co2 = c18DoExchange(context.Background(), tr, &ex2)
		}
		if so2.called() {
			<-so2.done
		}
		r.eval("abort/follow-up", c18Compare(&ex2, false, so2, co2)...)
	}
	if act == "blackhole" {
		time.Sleep(12 * time.Second)
	}
	tr.Close()
	dialer.closeAll()
	srv.Close()
	select {
	case <-serveDone:
	case <-time.After(30 * time.Second):
		r.eval("leak", r.viol("server|serve-did-not-return", "30 s (virtual) after Server.Close"))
	}
	w.Close()
	time.Sleep(3 * time.Second)
	if lk := quicworld.BubbleGoroutines(); len(lk) > 0 {
		r.eval("leak", r.viol("leak|goroutines-alive-after-close", "%d goroutine(s) alive 3 s (virtual) after Server.Close, Transport.Close and World.Close (%s):\n%s", len(lk), pc.Name, lk[0]))
	}
	_ = http.MethodGet
}

// c18PeerCases is the deterministic list of hostile-peer cases for (tier, seed).
func c18PeerCases(l *evlog.Log) []*c18PeerCase {
	var out []*c18PeerCase
	rng := l.Rand("peer")
	th := l.Thorough()
	add := func(target, kind string, logger, trailers bool, a, b, c int) {
		pc := &c18PeerCase{Idx: len(out), Target: target, Kind: kind, Logger: logger, Trailers: trailers, A: a, B: b, C: c, Seed: rng.Uint64()}
		pc.Name = fmt.Sprintf("%s/%s/a%d-b%d-c%d/logger=%v/trailers=%v", target, kind, a, b, c, logger, trailers)
		out = append(out, pc)
	}
	type combo struct{ logger, trailers bool }
	main2 := []combo{{false, false}, {true, true}}
	all4 := []combo{{false, false}, {true, true}, {false, true}, {true, false}}
	nForb := map[string]int{"server": len(c18ForbiddenList(false)), "client": len(c18ForbiddenList(true))}
	for _, target := range []string{"server", "client"} {
		// every cut position of one well-formed message
		msgSeeds := []int{1}
		if th {
			msgSeeds = []int{1, 2, 3, 4, 5, 6}
		}
		for _, ms := range msgSeeds {
			for p := 1; p < 1000; p += 50 {
				for i, cb := range all4 {
					if th || i == (p/50)%2*2+ms%2 || i == 2 && p%150 == 1 {
						add(target, "splits", cb.logger, cb.trailers, p, 50, ms)
					}
				}
			}
		}
		for i := 0; i < l.Pick(16, 600); i++ {
			cb := all4[i%4]
			add(target, "fuzz", cb.logger, cb.trailers, l.Pick(25, 60), 0, i)
		}
		for i := 0; i < l.Pick(8, 80); i++ {
			add(target, "unknown-uni", i%2 == 0, i%4 < 2, i%4, 0, i)
		}
		for a := 0; a < nForb[target]; a++ {
			for _, b := range []int{0, 3} {
				for _, cb := range main2 {
					add(target, "forbidden", cb.logger, cb.trailers, a, b, 0)
					if th {
						add(target, "forbidden", !cb.logger, cb.trailers, a, b+1, 1)
					}
				}
			}
		}
		for a := 0; a < 14; a++ {
			for b := 0; b < 2; b++ {
				for _, cb := range all4 {
					add(target, "cl-mismatch", cb.logger, cb.trailers, a, b*(1+a), 0)
				}
			}
		}
		for a := 0; a < 40; a++ { // cut positions (taken modulo the number of positions of the message)
			for b := 0; b < 7; b++ {
				for i, cb := range all4 {
					if th || i == 0 || i == 1 && (a+b)%2 == 0 || i == 2 && (a+b)%3 == 0 || i == 3 && (a+b)%7 == 0 {
						add(target, "reset-at", cb.logger, cb.trailers, a, b, 1+(a+b)%3)
					}
				}
			}
		}
		for a := 0; a < 2; a++ {
			for _, lg := range []bool{false, true} {
				add(target, "oversize", lg, a == 0, a, 0, 0)
				if target == "server" {
					add(target, "bad-trailer-decl", lg, a == 1, a, 0, 0)
				}
			}
		}
	}
	delays := []int{0, 1, 2, 5, 9, 12, 16, 22, 30, 45, 70, 120}
	reps := l.Pick(1, 12)
	for rep := 0; rep < reps; rep++ {
		for _, a := range delays {
			for b := 0; b < 4; b++ {
				for i, cb := range all4 {
					if th || i < 2 || (a+b)%2 == 0 {
						add("both", "abort", cb.logger, cb.trailers, a+rep, b, rep+a)
					}
				}
			}
		}
	}
	return out
}

func TestVerifC18Peer(t *testing.T) {
	l := evlog.Open("C18")
	defer l.Close()
	cases := c18PeerCases(l)
	const batch = 24
	// interleave the kinds over the batches so that every shard gets a similar mix
	nb := (len(cases) + batch - 1) / batch
	batches := make([][]*c18PeerCase, nb)
	for i, pc := range cases {
		batches[i%nb] = append(batches[i%nb], pc)
	}
	for bi, b := range batches {
		if !l.Mine(bi) {
			continue
		}
		names := make([]string, len(b))
		for i, pc := range b {
			names[i] = pc.Name
		}
		c := l.Begin(fmt.Sprintf("C18/peer/batch-%04d", bi), map[string]any{"cases": names})
		if c == nil {
			continue
		}
		c18RunBatch(l, c, b)
		c.End()
	}
}
