package http3

// C19 — only well-formed HTTP/3 field sections are accepted; writers and parser agree.
//
// Runtime monitor.  The real parseHeaders (through requestFromHeaders / updateResponseFromHeaders)
// and parseTrailers are driven with enumerated and generated field lists through a qpack decode
// function (a slice-backed one exactly like headers_test.go, and the real qpack encoder/decoder),
// next to a reference predicate written from RFC 9114 §4.1.2–4.3, RFC 8441 §4 and the RFC 9110
// token / field-value grammar (no use of golang.org/x/net/http/httpguts).
//
// Asserted: (soundness) accepted ⇒ the list is safe by the reference predicate and what is handed
// to net/http equals the model's decoding of the list; rejected ⇒ the error has the class the
// callers map to the code RFC 9114 / RFC 9204 prescribe.  Completeness is asserted only for writer
// output (zz_verif_c19_writers_test.go).  Where an implementation may be stricter than the
// predicate, both outcomes are accepted.

import (
	"bytes"
	"errors"
	"fmt"
	"io"
	"math/rand/v2"
	"net/http"
	"net/url"
	"sort"
	"strconv"
	"strings"
	"testing"

	"github.com/quic-go/qpack"

	"github.com/refraction-networking/uquic/internal/verif/evlog"
)

type c19F = qpack.HeaderField

type c19Kind int

const (
	c19Req c19Kind = iota
	c19Resp
	c19Trl
)

var c19KindName = [...]string{"request", "response", "trailer"}
var c19Comp = [...]string{"parse_request", "parse_response", "parse_trailer"}

// ---------------------------------------------------------------------------------------
// reference predicate

const (
	c19rUpper uint32 = 1 << iota
	c19rName
	c19rValue
	c19rConnSpecific
	c19rTE
	c19rUnknownPseudo
	c19rPseudoKind
	c19rPseudoAfterRegular
	c19rDupPseudo
	c19rCLNotNumeric
	c19rCLContradict
	c19rSize
	c19rProtocolWithoutConnect
	c19rConnectWithPath
	// the two families below are kept last: they are only used for the signature if no other
	// reason applies, so that a finding listed for them cannot mask a different breakage
	c19rDupPseudoAfterEmpty
	c19rCLEmpty
	c19rCount = 16
)

var c19ReasonName = [c19rCount]string{
	"uppercase_name", "invalid_name", "invalid_value", "connection_specific_field", "te_not_trailers",
	"unknown_pseudo", "pseudo_wrong_kind", "pseudo_after_regular", "dup_pseudo",
	"content_length_not_numeric", "content_length_contradictory", "size_over_limit",
	"protocol_without_connect", "connect_with_path",
	"dup_pseudo_after_empty_value", "content_length_empty",
}

func c19FirstReason(mask uint32) string {
	for i := 0; i < c19rCount; i++ {
		if mask&(1<<i) != 0 {
			return c19ReasonName[i]
		}
	}
	return "none"
}

func c19ReasonList(mask uint32) []string {
	var r []string
	for i := 0; i < c19rCount; i++ {
		if mask&(1<<i) != 0 {
			r = append(r, c19ReasonName[i])
		}
	}
	return r
}

// RFC 9110 §5.6.2: tchar
func c19IsTchar(b byte) bool {
	switch {
	case b >= 'a' && b <= 'z', b >= 'A' && b <= 'Z', b >= '0' && b <= '9':
		return true
	}
	return strings.IndexByte("!#$%&'*+-.^_`|~", b) >= 0
}

// RFC 9110 §5.5: field-value bytes are VCHAR, obs-text, SP and HTAB; RFC 9114 §4.2 / §10.3 name
// NUL, CR and LF explicitly.  Forbidden: every other C0 control and DEL.
func c19ValueOK(v string) bool {
	for i := 0; i < len(v); i++ {
		b := v[i]
		if (b < 0x20 && b != '\t') || b == 0x7f {
			return false
		}
	}
	return true
}

func c19IsDigits(v string) bool {
	if v == "" {
		return false
	}
	for i := 0; i < len(v); i++ {
		if v[i] < '0' || v[i] > '9' {
			return false
		}
	}
	return true
}

func c19PseudoIdx(name string) int {
	switch name {
	case ":method":
		return 0
	case ":path":
		return 1
	case ":authority":
		return 2
	case ":scheme":
		return 3
	case ":protocol":
		return 4
	case ":status":
		return 5
	}
	return -1
}

var c19ConnSpecific = [...]string{"connection", "keep-alive", "proxy-connection", "transfer-encoding", "upgrade"}

type c19Judgement struct {
	mask     uint32
	size     int
	pseudoN  [6]int    // occurrences
	pseudoV  [6]string // last value
	nRegular int
}

// c19Judge is the reference predicate: mask == 0 ⇔ the list is safe to hand to net/http.
func c19Judge(kind c19Kind, fields []c19F, limit int) c19Judgement {
	var j c19Judgement
	var nonEmptySeen [6]bool
	var clFirst string
	clN := 0
	clAllEmpty := true
	seenRegular := false
	for _, f := range fields {
		j.size += len(f.Name) + len(f.Value) + 32
		hasUpper := false
		for i := 0; i < len(f.Name); i++ {
			if f.Name[i] >= 'A' && f.Name[i] <= 'Z' {
				hasUpper = true
			}
		}
		if hasUpper {
			j.mask |= c19rUpper
		}
		if !c19ValueOK(f.Value) {
			j.mask |= c19rValue
		}
		if len(f.Name) > 0 && f.Name[0] == ':' {
			if kind == c19Trl {
				j.mask |= c19rPseudoKind
			}
			if seenRegular {
				j.mask |= c19rPseudoAfterRegular
			}
			pi := c19PseudoIdx(f.Name)
			if pi < 0 {
				j.mask |= c19rUnknownPseudo
				continue
			}
			if (kind == c19Req) == (pi == 5) {
				j.mask |= c19rPseudoKind
			}
			if j.pseudoN[pi] > 0 {
				if nonEmptySeen[pi] {
					j.mask |= c19rDupPseudo
				} else {
					j.mask |= c19rDupPseudoAfterEmpty
				}
			}
			j.pseudoN[pi]++
			j.pseudoV[pi] = f.Value
			if f.Value != "" {
				nonEmptySeen[pi] = true
			}
			continue
		}
		seenRegular = true
		j.nRegular++
		ok := len(f.Name) > 0
		for i := 0; i < len(f.Name); i++ {
			if !c19IsTchar(f.Name[i]) {
				ok = false
			}
		}
		if !ok {
			j.mask |= c19rName
		}
		for _, n := range c19ConnSpecific {
			if f.Name == n {
				j.mask |= c19rConnSpecific
			}
		}
		if f.Name == "te" && f.Value != "trailers" {
			j.mask |= c19rTE
		}
		if f.Name == "content-length" && kind != c19Trl {
			if f.Value != "" {
				clAllEmpty = false
				if !c19IsDigits(f.Value) {
					j.mask |= c19rCLNotNumeric
				}
			}
			if clN > 0 && f.Value != clFirst {
				j.mask |= c19rCLContradict
			}
			if clN == 0 {
				clFirst = f.Value
			}
			clN++
		}
	}
	if clN > 0 && clAllEmpty {
		j.mask |= c19rCLEmpty
	}
	if j.size > limit {
		j.mask |= c19rSize
	}
	if kind == c19Req {
		isConnect := j.pseudoV[0] == "CONNECT"
		if j.pseudoV[4] != "" && !isConnect {
			j.mask |= c19rProtocolWithoutConnect
		}
		if isConnect && j.pseudoV[4] == "" && j.pseudoV[1] != "" {
			j.mask |= c19rConnectWithPath
		}
	}
	return j
}

// ---------------------------------------------------------------------------------------
// model decoding of a safe list (what net/http must be handed)

type c19Decoded struct {
	hdr      map[string][]string
	cl       int64
	trailers map[string]struct{} // announced; nil if no Trailer field
}

func c19ModelDecode(kind c19Kind, fields []c19F) (d c19Decoded, clOverflow bool) {
	d.hdr = map[string][]string{}
	d.cl = -1
	clStr := ""
	for _, f := range fields {
		if len(f.Name) > 0 && f.Name[0] == ':' {
			continue
		}
		if f.Name == "content-length" && kind != c19Trl {
			clStr = f.Value
			continue
		}
		k := http.CanonicalHeaderKey(f.Name)
		d.hdr[k] = append(d.hdr[k], f.Value)
	}
	if clStr != "" {
		v, err := strconv.ParseUint(clStr, 10, 63)
		if err != nil {
			clOverflow = true
		} else {
			d.cl = int64(v)
			d.hdr["Content-Length"] = []string{clStr}
		}
	}
	if kind == c19Trl {
		return d, clOverflow
	}
	if kind == c19Req {
		if c := d.hdr["Cookie"]; len(c) > 0 {
			d.hdr["Cookie"] = []string{strings.Join(c, "; ")}
		}
	}
	if raw, ok := d.hdr["Trailer"]; ok {
		d.trailers = map[string]struct{}{}
		for _, rv := range raw {
			for _, v := range strings.Split(rv, ",") {
				d.trailers[http.CanonicalHeaderKey(strings.Trim(v, " \t"))] = struct{}{}
			}
		}
		delete(d.hdr, "Trailer")
	}
	return d, clOverflow
}

func c19HeaderDiff(got http.Header, want map[string][]string) string {
	for k, wv := range want {
		gv, ok := got[k]
		if !ok {
			return fmt.Sprintf("key %q missing", k)
		}
		if len(gv) != len(wv) {
			return fmt.Sprintf("key %q: got %q want %q", k, gv, wv)
		}
		for i := range wv {
			if gv[i] != wv[i] {
				return fmt.Sprintf("key %q: got %q want %q", k, gv, wv)
			}
		}
	}
	for k := range got {
		if _, ok := want[k]; !ok {
			return fmt.Sprintf("unexpected key %q = %q", k, got[k])
		}
	}
	return ""
}

func c19TrailerKeysDiff(got http.Header, want map[string]struct{}) string {
	if want == nil {
		if got != nil {
			return fmt.Sprintf("announced trailers %v, none expected", got)
		}
		return ""
	}
	if len(got) != len(want) {
		return fmt.Sprintf("announced trailers %v, want keys %v", got, want)
	}
	for k := range want {
		if _, ok := got[k]; !ok {
			return fmt.Sprintf("announced trailer %q missing", k)
		}
	}
	return ""
}

// c19OutputSafe checks what is handed to net/http, independently of how it was produced.
func c19OutputSafe(h http.Header) string {
	for k, vv := range h {
		if k == "" {
			return "empty header key"
		}
		for i := 0; i < len(k); i++ {
			if !c19IsTchar(k[i]) {
				return fmt.Sprintf("header key %q is not a token", k)
			}
		}
		lk := strings.ToLower(k)
		for _, n := range c19ConnSpecific {
			if lk == n {
				return fmt.Sprintf("connection-specific key %q", k)
			}
		}
		for _, v := range vv {
			if !c19ValueOK(v) {
				return fmt.Sprintf("forbidden byte in value of %q: %q", k, v)
			}
		}
		if lk == "content-length" && (len(vv) != 1 || !c19IsDigits(vv[0])) {
			return fmt.Sprintf("Content-Length %q", vv)
		}
	}
	return ""
}

// ---------------------------------------------------------------------------------------
// driving the real parser

var c19ErrInjected = errors.New("c19: injected qpack decoding error")

func c19DecodeFromSlice(fields []c19F, injectAt int) qpack.DecodeFunc {
	i := 0
	return func() (qpack.HeaderField, error) {
		if i == injectAt {
			return qpack.HeaderField{}, c19ErrInjected
		}
		if i >= len(fields) {
			return qpack.HeaderField{}, io.EOF
		}
		h := fields[i]
		i++
		return h, nil
	}
}

type c19Result struct {
	err error
	req *http.Request
	rsp *http.Response
	trl http.Header
}

func c19Parse(kind c19Kind, fn qpack.DecodeFunc, limit int, seen *[]qpack.HeaderField) (r c19Result) {
	switch kind {
	case c19Req:
		r.req, r.err = requestFromHeaders(fn, limit, seen)
	case c19Resp:
		r.rsp = &http.Response{}
		r.err = updateResponseFromHeaders(r.rsp, fn, limit, seen)
	default:
		r.trl, r.err = parseTrailers(fn, limit, seen)
	}
	return r
}

// c19V logs at most a few violations per signature and process (a violation that is listed as a
// known finding must not use up the log budget and thereby hide a different one); the rest is counted.
var c19VSeen = map[string]int{}

func c19V(c *evlog.Case, sig, detail string, trace any) {
	c19VSeen[sig]++
	if c19VSeen[sig] > 3 {
		c.Count("violations_suppressed:"+sig, 1)
		return
	}
	c.Violation(sig, detail, trace)
}

type c19Stats struct {
	n map[string]int64
}

func (s *c19Stats) add(k string) { s.n[k]++ }
func (s *c19Stats) flush(l *evlog.Log) {
	for k, v := range s.n {
		l.Count(k, v)
	}
	s.n = map[string]int64{}
}

func c19Trace(kind c19Kind, fields []c19F, limit int, mode string) map[string]any {
	fl := make([][2]string, len(fields))
	for i, f := range fields {
		fl[i] = [2]string{strconv.Quote(f.Name), strconv.Quote(f.Value)}
	}
	return map[string]any{"kind": c19KindName[kind], "fields_go_quoted": fl, "size_limit": limit, "decode": mode}
}

func c19Shape(fields []c19F) string {
	var b [10]byte
	n := 0
	for _, f := range fields {
		if n == len(b) {
			break
		}
		c := byte('h')
		if len(f.Name) > 0 && f.Name[0] == ':' {
			switch c19PseudoIdx(f.Name) {
			case 0:
				c = 'm'
			case 1:
				c = 'p'
			case 2:
				c = 'a'
			case 3:
				c = 's'
			case 4:
				c = 'o'
			case 5:
				c = 'z'
			default:
				c = 'u'
			}
			if f.Value == "" {
				c -= 32 // upper-case letter for an empty pseudo value
			}
		} else {
			switch f.Name {
			case "content-length":
				c = 'c'
			case "te":
				c = 't'
			case "cookie":
				c = 'k'
			case "trailer":
				c = 'r'
			case "connection", "keep-alive", "proxy-connection", "transfer-encoding", "upgrade":
				c = 'x'
			default:
				if strings.ToLower(f.Name) != f.Name {
					c = '^'
				} else if !c19ValueOK(f.Value) {
					c = 'v'
				}
			}
		}
		b[n] = c
		n++
	}
	return string(b[:n])
}

// c19Check runs one list against the real parser and the oracle.  fields is what the decode
// function will yield; injectAt >= 0 makes the decode function fail at that index; mode is for
// the trace only.  fn == nil ⇒ slice-backed decode function.
func c19Check(c *evlog.Case, st *c19Stats, kind c19Kind, fields []c19F, limit int, injectAt int, fn qpack.DecodeFunc, mode string) (accepted bool, perr error) {
	comp := c19Comp[kind]
	if fn == nil {
		fn = c19DecodeFromSlice(fields, injectAt)
	}
	if injectAt >= 0 {
		// decoding fails part-way (fields[:injectAt] are delivered first): acceptance is never
		// legitimate, and the error must be of the qpack class (mapped to QPACK_DECOMPRESSION_FAILED)
		// unless the parser had a reason of its own to reject the prefix
		var seen []qpack.HeaderField
		r := c19Parse(kind, fn, limit, &seen)
		st.add("lists_" + c19KindName[kind])
		st.add("decode_error_lists")
		if r.err == nil {
			c19V(c, "C19|"+comp+"|accepted_on_decode_error", fmt.Sprintf("accepted although the qpack decode function failed after %d field(s)", len(seen)), c19Trace(kind, fields, limit, mode))
			c.Eval(c19KindName[kind] + "/decodeerr/accepted")
			return false, r.err
		}
		var qe *qpackError
		if errors.As(r.err, &qe) {
			st.add("rejected_qpack_class")
			c.Eval(c19KindName[kind] + "/decodeerr/qpack/" + c19Shape(seen))
			return false, r.err
		}
		// not the qpack class: legitimate only if the prefix alone is not acceptable either
		if r2 := c19Parse(kind, c19DecodeFromSlice(seen, -1), limit, nil); r2.err == nil {
			c19V(c, "C19|"+comp+"|wrong_error_class|decode_error_not_qpack", fmt.Sprintf("decode function failed after a prefix of %d field(s) that is accepted on its own, but the error %q is not a *qpackError (would be signalled as H3_MESSAGE_ERROR instead of QPACK_DECOMPRESSION_FAILED)", len(seen), r.err), c19Trace(kind, fields, limit, mode))
		}
		c.Eval(c19KindName[kind] + "/decodeerr/malformed-first/" + c19Shape(seen))
		return false, r.err
	}
	r := c19Parse(kind, fn, limit, nil)
	st.add("lists_" + c19KindName[kind])

	j := c19Judge(kind, fields, limit)
	fp := ""
	if len(fields) > 0 {
		fp = fmt.Sprintf("%d/%x/%s", kind, j.mask, c19Shape(fields))
	}
	if r.err != nil {
		st.add("rejected_" + c19KindName[kind])
		var qe *qpackError
		switch {
		case errors.As(r.err, &qe):
			c19V(c, "C19|"+comp+"|wrong_error_class|qpack_for_malformed", fmt.Sprintf("no decoding error occurred but the rejection %q is a *qpackError (signalled as QPACK_DECOMPRESSION_FAILED instead of H3_MESSAGE_ERROR)", r.err), c19Trace(kind, fields, limit, mode))
		case errors.Is(r.err, errHeaderTooLarge):
			st.add("rejected_too_large")
			if j.mask&c19rSize == 0 {
				c19V(c, "C19|"+comp+"|wrong_error_class|too_large_within_limit", fmt.Sprintf("size %d <= limit %d but rejected as too large", j.size, limit), c19Trace(kind, fields, limit, mode))
			}
			if fp != "" {
				fp += "/431"
			}
		default:
			st.add("rejected_malformed")
			if fp != "" {
				fp += "/rej"
			}
		}
		if j.mask == 0 {
			st.add("obs_safe_by_predicate_but_rejected") // allowed: an implementation may be stricter
		}
		c.Eval(fp)
		return false, r.err
	}

	// accepted
	st.add("accepted_" + c19KindName[kind])
	if fp != "" {
		fp += "/acc"
	}
	c.Eval(fp)
	if j.mask != 0 {
		reason := c19FirstReason(j.mask)
		st.add("unsafe_accepted_" + reason)
		detail := fmt.Sprintf("%s section accepted although the reference predicate rejects it: %v (size %d, limit %d)", c19KindName[kind], c19ReasonList(j.mask), j.size, limit)
		if kind == c19Req && r.req != nil {
			detail += fmt.Sprintf("; handed to net/http: Method=%q Host=%q RequestURI=%q ContentLength=%d Header=%v", r.req.Method, r.req.Host, r.req.RequestURI, r.req.ContentLength, r.req.Header)
		}
		if kind == c19Resp && r.rsp != nil {
			detail += fmt.Sprintf("; handed to net/http: StatusCode=%d ContentLength=%d Header=%v", r.rsp.StatusCode, r.rsp.ContentLength, r.rsp.Header)
		}
		c19V(c, "C19|"+comp+"|accepted_unsafe|"+reason, detail, c19Trace(kind, fields, limit, mode))
		return true, nil
	}
	st.add("accepted_safe")
	want, clOverflow := c19ModelDecode(kind, fields)
	bad := func(what, f string, a ...any) {
		c19V(c, "C19|"+comp+"|decoded_differs|"+what, fmt.Sprintf(f, a...), c19Trace(kind, fields, limit, mode))
	}
	var hdr http.Header
	switch kind {
	case c19Req:
		req := r.req
		hdr = req.Header
		if req.Method != j.pseudoV[0] {
			bad("method", "Method %q, :method %q", req.Method, j.pseudoV[0])
		}
		if req.Host != j.pseudoV[2] {
			bad("authority", "Host %q, :authority %q", req.Host, j.pseudoV[2])
		}
		isConnect := j.pseudoV[0] == "CONNECT"
		ext := isConnect && j.pseudoV[4] != ""
		switch {
		case isConnect && !ext:
			if req.RequestURI != j.pseudoV[2] || req.URL == nil || req.URL.Host != j.pseudoV[2] || req.URL.Path != "" {
				bad("connect_target", "CONNECT: RequestURI %q URL %v, :authority %q", req.RequestURI, req.URL, j.pseudoV[2])
			}
		default:
			u, err := url.ParseRequestURI(j.pseudoV[1])
			if err == nil {
				if req.URL == nil || req.URL.Path != u.Path || req.URL.RawQuery != u.RawQuery {
					bad("path", "URL %v, :path %q", req.URL, j.pseudoV[1])
				}
				if ext {
					if req.Proto != j.pseudoV[4] || req.URL.Host != j.pseudoV[2] || req.URL.Scheme != j.pseudoV[3] {
						bad("extended_connect", "Proto %q URL %v; :protocol %q :authority %q :scheme %q", req.Proto, req.URL, j.pseudoV[4], j.pseudoV[2], j.pseudoV[3])
					}
				} else if req.RequestURI != j.pseudoV[1] {
					bad("path", "RequestURI %q, :path %q", req.RequestURI, j.pseudoV[1])
				}
			}
		}
		if !clOverflow && req.ContentLength != want.cl {
			bad("content_length", "ContentLength %d, want %d", req.ContentLength, want.cl)
		}
		if d := c19TrailerKeysDiff(req.Trailer, want.trailers); d != "" {
			bad("announced_trailers", "%s", d)
		}
		// observations (not demanded by the property statement, see the report)
		if j.pseudoN[3] == 0 && !(isConnect && !ext) {
			st.add("obs_accepted_request_without_scheme")
		}
		if isConnect && !ext && j.pseudoN[3] > 0 {
			st.add("obs_accepted_plain_connect_with_scheme")
		}
		for i := 0; i < 6; i++ {
			if j.pseudoN[i] > 0 && j.pseudoV[i] == "" {
				st.add("obs_accepted_with_empty_valued_pseudo_header")
				break
			}
		}
	case c19Resp:
		rsp := r.rsp
		hdr = rsp.Header
		if n, err := strconv.Atoi(j.pseudoV[5]); err == nil {
			if rsp.StatusCode != n {
				bad("status", "StatusCode %d, :status %q", rsp.StatusCode, j.pseudoV[5])
			}
			if n < 100 || n > 999 || len(j.pseudoV[5]) != 3 {
				st.add("obs_accepted_status_not_three_digits")
			}
		} else {
			bad("status", "accepted with :status %q (%d occurrence(s)), StatusCode %d", j.pseudoV[5], j.pseudoN[5], rsp.StatusCode)
		}
		if !clOverflow && rsp.ContentLength != want.cl {
			bad("content_length", "ContentLength %d, want %d", rsp.ContentLength, want.cl)
		}
		if d := c19TrailerKeysDiff(rsp.Trailer, want.trailers); d != "" {
			bad("announced_trailers", "%s", d)
		}
	default:
		hdr = r.trl
	}
	if d := c19OutputSafe(hdr); d != "" {
		bad("unsafe_output", "%s", d)
	}
	if !clOverflow {
		if d := c19HeaderDiff(hdr, want.hdr); d != "" {
			bad("header_fields", "%s", d)
		}
	}
	return true, nil
}

// ---------------------------------------------------------------------------------------
// exhaustive: every interleaving of k extra atoms into a base list

var c19Atoms = []c19F{
	{Name: ":method", Value: "GET"}, {Name: ":method", Value: ""}, {Name: ":method", Value: "CONNECT"},
	{Name: ":path", Value: "/p"}, {Name: ":path", Value: ""}, {Name: ":path", Value: "/q"},
	{Name: ":authority", Value: "h"}, {Name: ":authority", Value: ""},
	{Name: ":scheme", Value: "https"}, {Name: ":scheme", Value: ""},
	{Name: ":protocol", Value: "wt"}, {Name: ":protocol", Value: ""},
	{Name: ":status", Value: "200"}, {Name: ":status", Value: ""}, {Name: ":status", Value: "404"},
	{Name: ":foo", Value: "x"}, {Name: ":", Value: "x"}, {Name: ":Path", Value: "/p"},
	{Name: "a", Value: "b"}, {Name: "A", Value: "b"}, {Name: "a", Value: "v\x00"}, {Name: "a", Value: ""},
	{Name: "a b", Value: "c"}, {Name: "", Value: "x"}, {Name: "a:b", Value: "x"}, {Name: "a\x80", Value: "x"},
	{Name: "connection", Value: "close"}, {Name: "upgrade", Value: "x"}, {Name: "transfer-encoding", Value: "chunked"},
	{Name: "te", Value: "trailers"}, {Name: "te", Value: "gzip"},
	{Name: "content-length", Value: "5"}, {Name: "content-length", Value: "6"}, {Name: "content-length", Value: "+5"}, {Name: "content-length", Value: ""},
	{Name: "cookie", Value: "c"}, {Name: "trailer", Value: "t"}, {Name: "x-y", Value: "v\n"},
}

type c19Base struct {
	name   string
	kind   c19Kind
	fields []c19F
	kq, kt int // number of extras, quick / thorough
}

var c19Bases = []c19Base{
	{"get", c19Req, []c19F{{Name: ":method", Value: "GET"}, {Name: ":path", Value: "/p"}, {Name: ":authority", Value: "h"}}, 3, 4},
	{"get_scheme", c19Req, []c19F{{Name: ":method", Value: "GET"}, {Name: ":scheme", Value: "https"}, {Name: ":authority", Value: "h"}, {Name: ":path", Value: "/p"}}, 2, 3},
	{"connect", c19Req, []c19F{{Name: ":method", Value: "CONNECT"}, {Name: ":authority", Value: "h"}}, 3, 3},
	{"ext_connect", c19Req, []c19F{{Name: ":method", Value: "CONNECT"}, {Name: ":protocol", Value: "wt"}, {Name: ":scheme", Value: "https"}, {Name: ":path", Value: "/p"}, {Name: ":authority", Value: "h"}}, 2, 3},
	{"raw", c19Req, nil, 3, 4},
	{"empty_path_first", c19Req, []c19F{{Name: ":path", Value: ""}, {Name: ":method", Value: "GET"}, {Name: ":authority", Value: "h"}}, 3, 3},
	{"get_regular", c19Req, []c19F{{Name: ":method", Value: "GET"}, {Name: ":path", Value: "/p"}, {Name: ":authority", Value: "h"}, {Name: "a", Value: "b"}}, 2, 3},
	{"get_cl", c19Req, []c19F{{Name: ":method", Value: "GET"}, {Name: ":path", Value: "/p"}, {Name: ":authority", Value: "h"}, {Name: "content-length", Value: "5"}}, 2, 3},
	{"status", c19Resp, []c19F{{Name: ":status", Value: "200"}}, 3, 4},
	{"raw", c19Resp, nil, 3, 4},
	{"empty_status", c19Resp, []c19F{{Name: ":status", Value: ""}}, 3, 3},
	{"status_regular", c19Resp, []c19F{{Name: ":status", Value: "200"}, {Name: "a", Value: "b"}}, 3, 3},
	{"raw", c19Trl, nil, 3, 4},
	{"one", c19Trl, []c19F{{Name: "a", Value: "b"}}, 3, 3},
}

func c19Combos(n, k int) [][]int {
	var out [][]int
	cur := make([]int, k)
	var rec func(start, d int)
	rec = func(start, d int) {
		if d == k {
			out = append(out, append([]int(nil), cur...))
			return
		}
		for p := start; p < n+k; p++ {
			cur[d] = p
			rec(p+1, d+1)
		}
	}
	rec(0, 0)
	return out
}

func TestVerifC19Exhaustive(t *testing.T) {
	l := evlog.Open("C19")
	defer l.Close()
	st := &c19Stats{n: map[string]int64{}}
	const big = 1 << 20
	A := len(c19Atoms)
	idx := 0
	for bi, b := range c19Bases {
		kmax := l.Pick(b.kq, b.kt)
		for k := 0; k <= kmax; k++ {
			nFirst := A
			if k == 0 {
				nFirst = 1
			}
			combos := c19Combos(len(b.fields), k)
			for a0 := 0; a0 < nFirst; a0++ {
				mine := l.Mine(idx)
				idx++
				if !mine {
					continue
				}
				id := fmt.Sprintf("C19/exh/%s/%02d_%s/k%d/a%02d", c19KindName[b.kind], bi, b.name, k, a0)
				c := l.Begin(id, map[string]any{"base": b.name, "kind": c19KindName[b.kind], "extras": k, "first_extra_atom": a0})
				if c == nil {
					continue
				}
				total := 1
				for i := 1; i < k; i++ {
					total *= A
				}
				ex := make([]int, k)
				list := make([]c19F, len(b.fields)+k)
				n := 0
				for x := 0; x < total; x++ {
					if k > 0 {
						ex[0] = a0
						y := x
						for i := 1; i < k; i++ {
							ex[i] = y % A
							y /= A
						}
					}
					for _, cb := range combos {
						bi2, ei := 0, 0
						for p := range list {
							if ei < k && cb[ei] == p {
								list[p] = c19Atoms[ex[ei]]
								ei++
							} else {
								list[p] = b.fields[bi2]
								bi2++
							}
						}
						c19Check(c, st, b.kind, list, big, -1, nil, "slice")
						n++
						if n%8 == 0 {
							// the same list at the size limit -1 / 0 / +1
							sz := 0
							for _, f := range list {
								sz += len(f.Name) + len(f.Value) + 32
							}
							if sz > 0 {
								c19Check(c, st, b.kind, list, sz-1, -1, nil, "slice")
							}
							c19Check(c, st, b.kind, list, sz, -1, nil, "slice")
							c19Check(c, st, b.kind, list, sz+1, -1, nil, "slice")
						}
						if n%64 == 0 && len(list) > 0 {
							c19Check(c, st, b.kind, list, big, n/64%(len(list)+1), nil, "slice+inject")
						}
					}
				}
				if a0 == 0 {
					c.Sample("exhaustive-"+c19KindName[b.kind], map[string]any{"base": b.fields, "extras": k, "atoms": A, "interleavings": len(combos), "lists_per_first_atom": total * len(combos)})
				}
				st.flush(l)
				c.End()
			}
		}
	}
}

// ---------------------------------------------------------------------------------------
// random: long lists over the full alphabet, real qpack coding, sizes around the limit

var c19Alphabet = []byte{'a', 'b', 'z', 'A', 'Q', '0', '9', ':', ' ', 0, '\r', '\n', 0x7f, 0x80, 0xff, '-', '_', '\t', ',', ';', '=', '/', '~', '(', '"'}

func c19RandStr(rng *rand.Rand, maxLen int) string {
	n := rng.IntN(maxLen + 1)
	b := make([]byte, n)
	for i := range b {
		if rng.IntN(4) == 0 {
			b[i] = c19Alphabet[rng.IntN(len(c19Alphabet))]
		} else {
			b[i] = "abcdefxyz019-_"[rng.IntN(14)]
		}
	}
	return string(b)
}

var c19GoodNames = []string{"accept", "user-agent", "x-foo", "x-bar-9", "cookie", "cookie", "set-cookie", "trailer", "te", "content-type", "x_under", "x.dot", "!#$%&'*+-.^_`|~", "date", "etag", "priority"}

func c19GoodValue(rng *rand.Rand) string {
	switch rng.IntN(8) {
	case 0:
		return ""
	case 1:
		return "a b\tc"
	case 2:
		return "caf\xc3\xa9 \xff"
	case 3:
		return strings.Repeat("v", 1+rng.IntN(3000))
	}
	n := 1 + rng.IntN(12)
	b := make([]byte, n)
	for i := range b {
		b[i] = byte(0x21 + rng.IntN(0x7e-0x21))
	}
	return string(b)
}

func c19GoodRegular(rng *rand.Rand) c19F {
	n := c19GoodNames[rng.IntN(len(c19GoodNames))]
	v := c19GoodValue(rng)
	switch n {
	case "te":
		v = "trailers"
	case "trailer":
		v = []string{"x-t1", "X-T1, x-t2", " grpc-status ,grpc-message", "x-t3"}[rng.IntN(4)]
	}
	return c19F{Name: n, Value: v}
}

func c19RandBase(rng *rand.Rand, kind c19Kind) []c19F {
	var l []c19F
	switch kind {
	case c19Req:
		paths := []string{"/", "/foo", "//foo", "/a%20b?x=1&y=2", "*", "/\xc3\xbc", "/?"}
		auth := []string{"h", "quic-go.net", "example.com:8443", "[::1]:443", "127.0.0.1"}
		switch rng.IntN(6) {
		case 0: // plain CONNECT
			l = []c19F{{Name: ":method", Value: "CONNECT"}, {Name: ":authority", Value: auth[rng.IntN(len(auth))]}}
		case 1: // extended CONNECT
			l = []c19F{{Name: ":method", Value: "CONNECT"}, {Name: ":protocol", Value: []string{"webtransport", "connect-udp", "websocket"}[rng.IntN(3)]},
				{Name: ":scheme", Value: "https"}, {Name: ":path", Value: paths[rng.IntN(3)]}, {Name: ":authority", Value: auth[rng.IntN(len(auth))]}}
		default:
			l = []c19F{{Name: ":method", Value: []string{"GET", "POST", "HEAD", "PUT", "OPTIONS", "FOO"}[rng.IntN(6)]}, {Name: ":scheme", Value: []string{"https", "http"}[rng.IntN(2)]},
				{Name: ":authority", Value: auth[rng.IntN(len(auth))]}, {Name: ":path", Value: paths[rng.IntN(len(paths))]}}
			if rng.IntN(4) == 0 {
				l = append(l[:1], l[2:]...) // no :scheme (what headers_test.go uses)
			}
		}
		rng.Shuffle(len(l), func(i, j int) { l[i], l[j] = l[j], l[i] })
	case c19Resp:
		l = []c19F{{Name: ":status", Value: []string{"200", "204", "304", "404", "100", "103", "999", "500"}[rng.IntN(8)]}}
	}
	nReg := rng.IntN(9)
	if rng.IntN(10) == 0 {
		nReg = 10 + rng.IntN(30)
	}
	for i := 0; i < nReg; i++ {
		l = append(l, c19GoodRegular(rng))
	}
	if kind != c19Trl && rng.IntN(3) == 0 {
		cl := []string{"0", "5", "42", "007", "9223372036854775807", "9223372036854775808", "99999999999999999999"}[rng.IntN(7)]
		at := len(l)
		if nReg > 0 {
			at = len(l) - rng.IntN(nReg+1)
		}
		l = append(l[:at], append([]c19F{{Name: "content-length", Value: cl}}, l[at:]...)...)
		if rng.IntN(4) == 0 {
			l = append(l, c19F{Name: "content-length", Value: cl})
		}
	}
	return l
}

func c19Mutate(rng *rand.Rand, l []c19F) []c19F {
	ins := func(f c19F) {
		at := rng.IntN(len(l) + 1)
		l = append(l[:at], append([]c19F{f}, l[at:]...)...)
	}
	switch rng.IntN(11) {
	case 0, 1:
		ins(c19Atoms[rng.IntN(len(c19Atoms))])
	case 2:
		ins(c19F{Name: c19RandStr(rng, 6), Value: c19RandStr(rng, 6)})
	case 3:
		if len(l) > 0 {
			ins(l[rng.IntN(len(l))])
		}
	case 4:
		if len(l) > 1 {
			i, j := rng.IntN(len(l)), rng.IntN(len(l))
			l[i], l[j] = l[j], l[i]
		}
	case 5:
		if len(l) > 0 {
			i := rng.IntN(len(l))
			b := []byte(l[i].Name)
			if len(b) > 0 {
				b[rng.IntN(len(b))] = c19Alphabet[rng.IntN(len(c19Alphabet))]
				l[i].Name = string(b)
			}
		}
	case 6:
		if len(l) > 0 {
			i := rng.IntN(len(l))
			b := []byte(l[i].Value)
			if len(b) > 0 {
				b[rng.IntN(len(b))] = c19Alphabet[rng.IntN(len(c19Alphabet))]
				l[i].Value = string(b)
			}
		}
	case 7:
		if len(l) > 0 {
			i := rng.IntN(len(l))
			l = append(l[:i], l[i+1:]...)
		}
	case 8:
		if len(l) > 0 {
			l[rng.IntN(len(l))].Value = ""
		}
	case 9:
		if len(l) > 0 {
			i := rng.IntN(len(l))
			b := []byte(l[i].Name)
			if len(b) > 0 {
				p := rng.IntN(len(b))
				if b[p] >= 'a' && b[p] <= 'z' {
					b[p] -= 32
				}
				l[i].Name = string(b)
			}
		}
	case 10:
		names := []string{":method", ":path", ":authority", ":scheme", ":protocol", ":status", "content-length", "te", "connection", "keep-alive", "proxy-connection", "transfer-encoding", "upgrade"}
		vals := []string{"", "GET", "CONNECT", "/", "h", "https", "200", "5", "+5", "-5", "5 ", "0x5", "5,5", "trailers", "Trailers", "trailers, deflate", "x"}
		ins(c19F{Name: names[rng.IntN(len(names))], Value: vals[rng.IntN(len(vals))]})
	}
	return l
}

func c19QpackEncode(fields []c19F) ([]byte, error) {
	var buf bytes.Buffer
	enc := qpack.NewEncoder(&buf)
	for _, f := range fields {
		if err := enc.WriteField(f); err != nil {
			return nil, err
		}
	}
	if err := enc.Close(); err != nil {
		return nil, err
	}
	return buf.Bytes(), nil
}

func TestVerifC19Random(t *testing.T) {
	l := evlog.Open("C19")
	defer l.Close()
	st := &c19Stats{n: map[string]int64{}}
	nRand := l.Pick(2000000, 50000000)
	const batch = 2000
	for bi := 0; bi*batch < nRand; bi++ {
		if !l.Mine(bi) {
			continue
		}
		id := fmt.Sprintf("C19/rand/%06d", bi)
		c := l.Begin(id, map[string]any{"batch": bi, "n": batch})
		if c == nil {
			continue
		}
		rng := l.Rand(id)
		for k := 0; k < batch; k++ {
			kind := c19Kind(rng.IntN(3))
			list := c19RandBase(rng, kind)
			nm := 0
			switch x := rng.IntN(20); {
			case x < 5:
			case x < 12:
				nm = 1
			case x < 16:
				nm = 2
			default:
				nm = 3 + rng.IntN(4)
			}
			for i := 0; i < nm; i++ {
				list = c19Mutate(rng, list)
			}
			size := 0
			for _, f := range list {
				size += len(f.Name) + len(f.Value) + 32
			}
			limit := 1 << 30
			switch rng.IntN(8) {
			case 0:
				limit = size - 1
			case 1:
				limit = size
			case 2:
				limit = size + 1
			case 3:
				limit = rng.IntN(size + 2)
			}
			if limit < 0 {
				limit = 0
			}
			switch m := rng.IntN(10); m {
			case 0, 1, 2, 3: // through the real qpack encoder and decoder; case 3: truncated block
				blk, err := c19QpackEncode(list)
				if err != nil {
					st.add("qpack_encode_errors")
					continue
				}
				mode := "qpack"
				if m == 3 && len(blk) > 3 {
					blk = blk[:2+rng.IntN(len(blk)-2)]
					mode = "qpack-truncated"
					st.add("qpack_truncated_blocks")
				}
				// decode independently first, so that the oracle judges what the decoder really yields
				var got []c19F
				fn := qpack.NewDecoder().Decode(blk)
				var derr error
				for {
					hf, err := fn()
					if err != nil {
						if err != io.EOF {
							derr = err
						}
						break
					}
					got = append(got, hf)
				}
				if derr != nil {
					st.add("qpack_decoder_errors")
					c19Check(c, st, kind, got, limit, len(got), qpack.NewDecoder().Decode(blk), mode+" (decoder fails after the listed fields)")
					continue
				}
				st.add("qpack_roundtrips")
				c19Check(c, st, kind, got, limit, -1, qpack.NewDecoder().Decode(blk), mode)
			case 4:
				c19Check(c, st, kind, list, limit, rng.IntN(len(list)+1), nil, "slice+inject")
			default:
				c19Check(c, st, kind, list, limit, -1, nil, "slice")
			}
		}
		st.flush(l)
		c.End()
	}
}

func c19SortedKeys(m map[string][]string) []string {
	ks := make([]string, 0, len(m))
	for k := range m {
		ks = append(ks, k)
	}
	sort.Strings(ks)
	return ks
}
