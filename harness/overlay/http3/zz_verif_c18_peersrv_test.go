package http3_test

// C18 — scripted HTTP/3 *client* on a raw QUIC connection against the real http3.Server.

import (
	"bytes"
	"context"
	"errors"
	"fmt"
	"io"
	"math/rand/v2"
	"net/http"
	"strconv"
	"strings"
	"sync"
	"time"

	quic "github.com/refraction-networking/uquic"
	"github.com/refraction-networking/uquic/http3"
	"github.com/refraction-networking/uquic/internal/verif/quicworld"
	"github.com/refraction-networking/uquic/internal/verif/simworld"
	"github.com/refraction-networking/uquic/internal/verif/wiretap"
)

// ---------------------------------------------------------------------------------------------
// scripted messages

type c18Msg struct {
	Bytes    []byte
	Bounds   []int // offsets at which a frame starts, plus len(Bytes)
	Parts    []string
	Body     []byte
	Trailers []c18Field
	Unknown  int
}

type c18MsgOpt struct {
	Unknown  bool
	Trailers bool
	BodyLen  int
	Frames   int  // number of DATA frames the body is cut into (0: none even if BodyLen is 0)
	Info     int  // informational HEADERS before the head (responses)
	SmallUnk bool // unknown frames carry at most 7 bytes
}

var c18UnknownTypes = []uint64{0x21, 0xfa, 0x40, 0xb, 0xf0, 0x1f*0x1234567 + 0x21, 0x1f*0x123456789ab + 0x21, 0x3ffffffffffffffe}

func (m *c18Msg) add(name string, b []byte) {
	m.Bounds = append(m.Bounds, len(m.Bytes))
	m.Parts = append(m.Parts, name)
	m.Bytes = append(m.Bytes, b...)
}

func (m *c18Msg) finish() *c18Msg { m.Bounds = append(m.Bounds, len(m.Bytes)); return m }

func c18UnknownFrame(rng *rand.Rand, small bool) []byte {
	t := c18UnknownTypes[rng.IntN(len(c18UnknownTypes))]
	n := []int{0, 0, 1, 7, 100, 1500, 5000}[rng.IntN(7)]
	if small {
		n = min(n, 7)
	}
	return c18Frame(t, c18Bytes(t, n))
}

func c18BuildMsg(rng *rand.Rand, head []c18Field, o c18MsgOpt, key uint64) *c18Msg {
	m := &c18Msg{}
	unk := func() {
		for o.Unknown && rng.IntN(2) == 0 {
			m.add("unknown", c18UnknownFrame(rng, o.SmallUnk))
			m.Unknown++
		}
	}
	unk()
	for i := 0; i < o.Info; i++ {
		m.add("info", c18HeadersFrame([]c18Field{{":status", "103"}, {"link", fmt.Sprintf("</s%d.css>; rel=preload", i)}}))
		unk()
	}
	m.add("headers", c18HeadersFrame(head))
	unk()
	m.Body = c18Bytes(key, o.BodyLen)
	rest := m.Body
	for i := 0; i < o.Frames; i++ {
		n := len(rest)
		if i < o.Frames-1 {
			n = rng.IntN(len(rest) + 1)
		}
		m.add("data", c18Frame(c18FrameData, rest[:n]))
		rest = rest[n:]
		unk()
	}
	if o.Trailers {
		m.Trailers = []c18Field{{"x-peer-trailer", "t-" + strconv.FormatUint(key, 10)}, {"etag", `"e"`}}
		m.add("trailers", c18HeadersFrame(m.Trailers))
		unk()
	}
	return m.finish()
}

func c18ReqHead(path string, extra ...c18Field) []c18Field {
	return append([]c18Field{{":method", "POST"}, {":scheme", "https"}, {":authority", "c18.test"}, {":path", path}, {"x-verif", "peer"}}, extra...)
}

// c18Cuts returns the pieces of b cut at the given sorted offsets.
func c18Cuts(b []byte, cuts ...int) [][]byte {
	var out [][]byte
	prev := 0
	for _, c := range cuts {
		if c <= prev || c >= len(b) {
			continue
		}
		out = append(out, b[prev:c])
		prev = c
	}
	return append(out, b[prev:])
}

// ---------------------------------------------------------------------------------------------
// the handler behind the real server

type c18PeerSeen struct {
	Method  string
	CL      int64
	Body    []byte
	ReadErr string
	Trailer http.Header
	Panic   string
	Done    bool
}

type c18PeerHandler struct {
	mu       sync.Mutex
	seen     map[string]*c18PeerSeen
	trailers bool
	badDecl  int // 0: none, 1: Trailer names a forbidden field, 2: TrailerPrefix with a forbidden field
}

func c18RespBody(path string, n int) []byte {
	k := uint64(0)
	for _, ch := range []byte(path) {
		k = k*131 + uint64(ch)
	}
	return c18Bytes(k, n)
}

func (h *c18PeerHandler) ServeHTTP(w http.ResponseWriter, r *http.Request) {
	s := &c18PeerSeen{Method: r.Method, CL: r.ContentLength}
	h.mu.Lock()
	h.seen[r.URL.Path] = s
	h.mu.Unlock()
	defer func() {
		if p := recover(); p != nil {
			h.mu.Lock()
			s.Panic = c18PanicString(p)
			s.Done = true
			h.mu.Unlock()
			panic(http.ErrAbortHandler)
		}
	}()
	buf := make([]byte, 700)
	var body []byte
	var rerr string
	for zeroReads := 0; ; {
		n, err := r.Body.Read(buf)
		body = append(body, buf[:n]...)
		if err != nil {
			if err != io.EOF {
				rerr = err.Error()
			}
			break
		}
		if n > 0 {
			zeroReads = 0
		} else if zeroReads++; zeroReads > c18MaxZeroReads {
			rerr = c18Livelock
			break
		}
	}
	h.mu.Lock()
	s.Body, s.ReadErr, s.Trailer = body, rerr, r.Trailer.Clone()
	h.mu.Unlock()
	n, _ := strconv.Atoi(r.URL.Query().Get("n"))
	if h.trailers {
		w.Header().Set("Trailer", "X-Resp-Trailer")
	}
	switch h.badDecl {
	case 1:
		w.Header().Add("Trailer", "Content-Length")
	case 2:
		w.Header().Set(http.TrailerPrefix+"Host", "x")
	}
	w.Header().Set("X-Seen-Len", strconv.Itoa(len(body)))
	w.Header().Set("Content-Type", "application/x-verif")
	w.WriteHeader(200)
	rb := c18RespBody(r.URL.Path, n)
	for len(rb) > 0 {
		k := min(len(rb), 1000)
		if _, err := w.Write(rb[:k]); err != nil {
			break
		}
		rb = rb[k:]
	}
	if r.URL.Query().Get("flush") != "" {
		w.(http.Flusher).Flush()
	}
	if h.trailers {
		w.Header().Set("X-Resp-Trailer", "rt")
		w.Header().Set(http.TrailerPrefix+"X-Late-Trailer", "lt")
	}
	h.mu.Lock()
	s.Done = true
	h.mu.Unlock()
}

func (h *c18PeerHandler) get(path string) *c18PeerSeen {
	h.mu.Lock()
	defer h.mu.Unlock()
	if s := h.seen[path]; s != nil {
		c := *s
		return &c
	}
	return nil
}

// ---------------------------------------------------------------------------------------------
// world: real server, raw client connection

type c18SrvWorld struct {
	w         *quicworld.World
	srv       *http3.Server
	h         *c18PeerHandler
	conn      *quic.Conn
	ctrl      *quic.SendStream
	ctx       context.Context
	cancel    context.CancelFunc
	serveDone chan error
	nextPath  int
}

type c18SrvOpt struct {
	NoControl      bool
	MaxHeaderBytes int
	IdleTimeout    time.Duration
	BadDecl        int
}

func c18NewSrvWorld(pc *c18PeerCase, o c18SrvOpt) (*c18SrvWorld, error) {
	opt, _ := c18WorldOptions("plain", 10, simworld.Schedule{}, false)
	if o.IdleTimeout > 0 {
		opt.ServerConf.MaxIdleTimeout = o.IdleTimeout
		opt.ClientConf.MaxIdleTimeout = o.IdleTimeout
		opt.ClientConf.KeepAlivePeriod = 0
	}
	w, err := quicworld.New(opt)
	if err != nil {
		return nil, err
	}
	sw := &c18SrvWorld{w: w, h: &c18PeerHandler{seen: map[string]*c18PeerSeen{}, trailers: pc.Trailers, badDecl: o.BadDecl}, serveDone: make(chan error, 1)}
	sw.ctx, sw.cancel = context.WithCancel(context.Background())
	sw.srv = &http3.Server{Handler: sw.h, Logger: c18Logger(pc.Logger), MaxHeaderBytes: o.MaxHeaderBytes}
	go func() { sw.serveDone <- sw.srv.ServeListener(w.Listener) }()
	dctx, dcancel := context.WithTimeout(sw.ctx, 30*time.Second)
	defer dcancel()
	sw.conn, err = w.Dial(dctx)
	if err != nil {
		sw.close()
		return nil, fmt.Errorf("dial: %w", err)
	}
	if !o.NoControl {
		sw.ctrl, err = sw.conn.OpenUniStream()
		if err == nil {
			_, err = sw.ctrl.Write(append([]byte{c18StreamControl}, c18SettingsFrame(0x6, 1<<20, 0x1f*3+0x21, 7)...))
		}
		if err != nil {
			sw.close()
			return nil, fmt.Errorf("control stream: %w", err)
		}
	}
	return sw, nil
}

func (sw *c18SrvWorld) close() []string {
	sw.cancel()
	if sw.conn != nil {
		sw.conn.CloseWithError(quic.ApplicationErrorCode(c18ErrNoError), "")
	}
	sw.srv.Close()
	select {
	case <-sw.serveDone:
	case <-time.After(30 * time.Second):
	}
	sw.w.Close()
	time.Sleep(3 * time.Second)
	return quicworld.BubbleGoroutines()
}

func (sw *c18SrvWorld) path(n int, extra string) string {
	sw.nextPath++
	return fmt.Sprintf("/peer/%d?n=%d%s", sw.nextPath, n, extra)
}

// c18RawResult is what the scripted peer observed on one stream.
type c18RawResult struct {
	OpenErr  error
	WriteErr error
	Data     []byte
	ReadErr  error // nil = FIN
}

func c18StreamCode(err error) (int64, bool) {
	var se *quic.StreamError
	if errors.As(err, &se) {
		return int64(se.ErrorCode), true
	}
	return 0, false
}

// c18RawExchange writes the pieces (gap of virtual time between them), ends the stream as told and
// collects everything the real endpoint answers.  end: "fin" | "none" | "reset" | "stop" | "reset+stop".
func c18RawExchange(ctx context.Context, conn *quic.Conn, pieces [][]byte, gap time.Duration, end string, code uint64) *c18RawResult {
	res := &c18RawResult{}
	octx, cancel := context.WithTimeout(ctx, 20*time.Second)
	str, err := conn.OpenStreamSync(octx)
	cancel()
	if err != nil {
		res.OpenErr = err
		return res
	}
	done := make(chan struct{})
	go func() {
		defer close(done)
		str.SetReadDeadline(time.Now().Add(30 * time.Second))
		res.Data, res.ReadErr = io.ReadAll(str)
	}()
	for i, p := range pieces {
		if _, err := str.Write(p); err != nil {
			res.WriteErr = err
			break
		}
		if gap > 0 && i < len(pieces)-1 {
			time.Sleep(gap)
		}
	}
	switch end {
	case "fin":
		str.Close()
	case "reset":
		str.CancelWrite(quic.StreamErrorCode(code))
	case "stop":
		str.CancelRead(quic.StreamErrorCode(code))
		str.Close()
	case "reset+stop":
		str.CancelWrite(quic.StreamErrorCode(code))
		str.CancelRead(quic.StreamErrorCode(code))
	}
	<-done
	if end == "none" {
		str.CancelWrite(quic.StreamErrorCode(c18ErrRequestCanceled))
	}
	return res
}

// c18ConnClosed waits up to d (virtual) for the connection to end and returns the application
// error code the peer closed it with (-1: ended otherwise, -2: still alive).
func c18ConnClosed(conn *quic.Conn, d time.Duration) (int64, string) {
	select {
	case <-conn.Context().Done():
	case <-time.After(d):
		return -2, "connection still alive"
	}
	cause := context.Cause(conn.Context())
	var ae *quic.ApplicationError
	if errors.As(cause, &ae) && ae.Remote {
		return int64(ae.ErrorCode), cause.Error()
	}
	return -1, fmt.Sprint(cause)
}

// checkClean: a well-formed (if oddly framed) request must have been handled exactly.
func (sw *c18SrvWorld) checkClean(r *c18PeerRun, what, path string, m *c18Msg, respLen int, res *c18RawResult) []c18Viol {
	var vs []c18Viol
	p, _, _ := strings.Cut(path, "?")
	seen := sw.h.get(p)
	switch {
	case res.OpenErr != nil || res.WriteErr != nil:
		vs = append(vs, r.viol("server|scripted|"+what+"|request-not-accepted", "open: %v, write: %v", res.OpenErr, res.WriteErr))
		return vs
	case seen == nil:
		vs = append(vs, r.viol("server|scripted|"+what+"|handler-not-invoked", "response stream: %d bytes, err %v; parts %v", len(res.Data), res.ReadErr, m.Parts))
		return vs
	}
	if seen.Panic != "" {
		tail, _ := c18ClassifyPanic("panic: " + seen.Panic)
		vs = append(vs, r.viol("server|"+tail, "recovered in the handler goroutine: %s", seen.Panic))
		return vs
	}
	if seen.ReadErr != "" {
		vs = append(vs, r.viol("server|scripted|"+what+"|request-body-read-error", "%s after %d of %d bytes; parts %v", seen.ReadErr, len(seen.Body), len(m.Body), m.Parts))
	} else if d := c18DiffBytes(seen.Body, m.Body); d != "" {
		vs = append(vs, r.viol("server|scripted|"+what+"|request-body", "%s; parts %v", d, m.Parts))
	}
	wantT := http.Header{}
	for _, f := range m.Trailers {
		wantT.Add(f.Name, f.Value)
	}
	if seen.ReadErr == "" {
		if d := c18DiffTrailers(seen.Trailer, wantT); d != "" {
			vs = append(vs, r.viol("server|scripted|"+what+"|request-trailers", "%s", d))
		}
	}
	if res.ReadErr != nil {
		vs = append(vs, r.viol("server|scripted|"+what+"|response-aborted", "%v after %d bytes", res.ReadErr, len(res.Data)))
		return vs
	}
	frames, err := c18ParseFrames(res.Data)
	var msg *c18Message
	if err == nil {
		msg, err = c18Assemble(frames, true)
	}
	if err != nil {
		vs = append(vs, r.viol("server|scripted|"+what+"|response-malformed", "%v", err))
		return vs
	}
	if st := c18FieldValue(msg.Head, ":status"); st != "200" {
		vs = append(vs, r.viol("server|scripted|"+what+"|response-status", "status %q", st))
	}
	if v := c18FieldValue(msg.Head, "x-seen-len"); v != strconv.Itoa(len(m.Body)) {
		vs = append(vs, r.viol("server|scripted|"+what+"|response-header", "x-seen-len %q, want %d", v, len(m.Body)))
	}
	if d := c18DiffBytes(msg.Body, c18RespBody(p, respLen)); d != "" {
		vs = append(vs, r.viol("server|scripted|"+what+"|response-body", "%s", d))
	}
	if sw.h.trailers {
		if c18FieldValue(msg.Trailers, "x-resp-trailer") != "rt" || c18FieldValue(msg.Trailers, "x-late-trailer") != "lt" {
			vs = append(vs, r.viol("server|scripted|"+what+"|response-trailers", "got %v", msg.Trailers))
		}
	} else if len(msg.Trailers) > 0 {
		vs = append(vs, r.viol("server|scripted|"+what+"|response-trailers", "unexpected %v", msg.Trailers))
	}
	return vs
}

// followUp: after a stream-level incident the connection must still serve a clean request.
func (sw *c18SrvWorld) followUp(r *c18PeerRun, what string) {
	rng := rand.New(rand.NewPCG(r.pc.Seed, 77))
	path := sw.path(1500, "")
	m := c18BuildMsg(rng, c18ReqHead(path), c18MsgOpt{BodyLen: 300, Frames: 2, Trailers: true}, 99)
	res := c18RawExchange(sw.ctx, sw.conn, [][]byte{m.Bytes}, 0, "fin", 0)
	vs := sw.checkClean(r, what+"-follow-up", path, m, 1500, res)
	r.eval(what+"/follow-up", vs...)
}

// ---------------------------------------------------------------------------------------------
// kinds

// forbidden things a client can do, and the RFC 9114 connection error that must answer them
type c18Forbidden struct {
	Name  string
	Where string // request | control-first | control-after | uni
	Build func(rng *rand.Rand) []byte
	Want  []int64
	Pos   int // request: 0 first, 1 after HEADERS, 2 after DATA, 3 after trailers
	End   string
}

func c18ForbiddenList(client bool) []c18Forbidden {
	var out []c18Forbidden
	posName := []string{"first", "after-HEADERS", "after-DATA", "after-trailers"}
	msgName := "request"
	if client {
		msgName = "response"
	}
	for _, t := range []uint64{0x2, 0x6, 0x8, 0x9} {
		for pos := 0; pos < 4; pos++ {
			t := t
			out = append(out, c18Forbidden{Name: fmt.Sprintf("%s:reserved-frame-%s", msgName, posName[pos]), Where: "request", Pos: pos, Want: []int64{c18ErrFrameUnexpected},
				Build: func(rng *rand.Rand) []byte { return c18Frame(t, c18Bytes(t, []int{0, 5, 40}[rng.IntN(3)])) }})
		}
		out = append(out, c18Forbidden{Name: "control:reserved-frame-first", Where: "control-first", Want: []int64{c18ErrFrameUnexpected, c18ErrMissingSettings},
			Build: func(rng *rand.Rand) []byte { return c18Frame(t, c18Bytes(t, 5)) }})
		out = append(out, c18Forbidden{Name: "control:reserved-frame-after-SETTINGS", Where: "control-after", Want: []int64{c18ErrFrameUnexpected},
			Build: func(rng *rand.Rand) []byte { return c18Frame(t, c18Bytes(t, 5)) }})
	}
	out = append(out, c18Forbidden{Name: msgName + ":DATA-before-HEADERS", Where: "request", Pos: 0, Want: []int64{c18ErrFrameUnexpected},
		Build: func(rng *rand.Rand) []byte { return c18Frame(c18FrameData, []byte("early")) }})
	for pos := 0; pos < 3; pos++ {
		out = append(out, c18Forbidden{Name: fmt.Sprintf("%s:SETTINGS-%s", msgName, posName[pos]), Where: "request", Pos: pos, Want: []int64{c18ErrFrameUnexpected},
			Build: func(rng *rand.Rand) []byte { return c18SettingsFrame(0x6, 4096) }})
		out = append(out, c18Forbidden{Name: fmt.Sprintf("%s:GOAWAY-%s", msgName, posName[pos]), Where: "request", Pos: pos, Want: []int64{c18ErrFrameUnexpected},
			Build: func(rng *rand.Rand) []byte { return c18Frame(c18FrameGoAway, []byte{0}) }})
	}
	out = append(out,
		c18Forbidden{Name: "control:second-SETTINGS", Where: "control-after", Want: []int64{c18ErrFrameUnexpected}, Build: func(rng *rand.Rand) []byte { return c18SettingsFrame(0x6, 4096) }},
		c18Forbidden{Name: "control:DATA-after-SETTINGS", Where: "control-after", Want: []int64{c18ErrFrameUnexpected}, Build: func(rng *rand.Rand) []byte { return c18Frame(c18FrameData, []byte("x")) }},
		c18Forbidden{Name: "control:HEADERS-after-SETTINGS", Where: "control-after", Want: []int64{c18ErrFrameUnexpected}, Build: func(rng *rand.Rand) []byte { return c18HeadersFrame([]c18Field{{"x", "y"}}) }},
		c18Forbidden{Name: "control:first-frame-DATA", Where: "control-first", Want: []int64{c18ErrMissingSettings, c18ErrFrameUnexpected}, Build: func(rng *rand.Rand) []byte { return c18Frame(c18FrameData, []byte("x")) }},
		c18Forbidden{Name: "control:first-frame-HEADERS", Where: "control-first", Want: []int64{c18ErrMissingSettings, c18ErrFrameUnexpected}, Build: func(rng *rand.Rand) []byte { return c18HeadersFrame([]c18Field{{"x", "y"}}) }},
		c18Forbidden{Name: "control:first-frame-GOAWAY", Where: "control-first", Want: []int64{c18ErrMissingSettings}, Build: func(rng *rand.Rand) []byte { return c18Frame(c18FrameGoAway, []byte{0}) }},
		c18Forbidden{Name: "control:FIN-before-SETTINGS", Where: "control-first", End: "fin", Want: []int64{c18ErrClosedCritical}, Build: func(rng *rand.Rand) []byte { return nil }},
		c18Forbidden{Name: "control:FIN-inside-SETTINGS", Where: "control-first", End: "fin", Want: []int64{c18ErrClosedCritical, c18ErrFrameError}, Build: func(rng *rand.Rand) []byte { b := c18SettingsFrame(0x6, 1<<20, 0x33, 0); return b[:len(b)-2] }},
		c18Forbidden{Name: "control:FIN-after-SETTINGS", Where: "control-after", End: "fin", Want: []int64{c18ErrClosedCritical}, Build: func(rng *rand.Rand) []byte { return nil }},
		c18Forbidden{Name: "control:RESET-after-SETTINGS", Where: "control-after", End: "reset", Want: []int64{c18ErrClosedCritical}, Build: func(rng *rand.Rand) []byte { return nil }},
		c18Forbidden{Name: "stream:duplicate-control", Where: "uni", Want: []int64{c18ErrStreamCreation}, Build: func(rng *rand.Rand) []byte { return append([]byte{c18StreamControl}, c18SettingsFrame()...) }},
		c18Forbidden{Name: "stream:duplicate-qpack-encoder", Where: "uni", Want: []int64{c18ErrStreamCreation}, Build: func(rng *rand.Rand) []byte { return []byte{c18StreamQPACKEnc} }, Pos: 2},
		c18Forbidden{Name: "stream:duplicate-qpack-decoder", Where: "uni", Want: []int64{c18ErrStreamCreation}, Build: func(rng *rand.Rand) []byte { return []byte{c18StreamQPACKDec} }, Pos: 2},
	)
	if client {
		out = append(out, c18Forbidden{Name: "stream:push-without-MAX_PUSH_ID", Where: "uni", Want: []int64{c18ErrIDError, c18ErrStreamCreation}, Build: func(rng *rand.Rand) []byte { return []byte{c18StreamPush, 0} }},
			c18Forbidden{Name: "control:GOAWAY-with-server-stream-id", Where: "control-after", Want: []int64{c18ErrIDError}, Build: func(rng *rand.Rand) []byte { return c18Frame(c18FrameGoAway, []byte{3}) }},
			c18Forbidden{Name: "control:GOAWAY-increasing", Where: "control-after", Want: []int64{c18ErrIDError, c18ErrNoError /* the first GOAWAY already ended an idle connection */}, Build: func(rng *rand.Rand) []byte {
				return append(c18Frame(c18FrameGoAway, c18AppendVarint(nil, 400)), c18Frame(c18FrameGoAway, c18AppendVarint(nil, 800))...)
			}})
	} else {
		out = append(out, c18Forbidden{Name: "stream:push-stream-from-client", Where: "uni", Want: []int64{c18ErrStreamCreation}, Build: func(rng *rand.Rand) []byte { return []byte{c18StreamPush, 0} }})
	}
	return out
}

// c18ForbiddenMsg places the forbidden bytes at position pos of a well-formed message.
func c18ForbiddenMsg(rng *rand.Rand, head []c18Field, pos int, bad []byte) []byte {
	m := c18BuildMsg(rng, head, c18MsgOpt{BodyLen: 200, Frames: 1, Trailers: true}, 5)
	// Bounds: headers, data, trailers, end
	at := m.Bounds[min(pos, len(m.Bounds)-1)]
	out := append([]byte(nil), m.Bytes[:at]...)
	out = append(out, bad...)
	return append(out, m.Bytes[at:]...)
}

func c18CheckForbidden(r *c18PeerRun, side string, fb *c18Forbidden, code int64, cause string) {
	ok := false
	for _, w := range fb.Want {
		ok = ok || w == code
	}
	var vs []c18Viol
	switch {
	case ok:
	case code == -2:
		vs = append(vs, r.viol(side+"|forbidden-not-rejected|"+fb.Name, "RFC 9114 demands a connection error %#x; 2 s (virtual) later the connection is still open", fb.Want))
	default:
		vs = append(vs, r.viol(side+"|forbidden-wrong-error|"+fb.Name, "RFC 9114 demands a connection error %#x; the endpoint ended the connection with %s", fb.Want, cause))
	}
	r.eval("forbidden/"+fb.Name, vs...)
	r.count("peer_forbidden_"+side, 1)
}

func c18RunSrvCase(r *c18PeerRun) {
	pc := r.pc
	rng := rand.New(rand.NewPCG(pc.Seed, 0x5e7))
	harness := func(err error) { r.eval("", r.viol("harness|peer-world", "%v", err)) }
	leak := func(lk []string) {
		if len(lk) > 0 {
			r.eval("leak", r.viol("leak|goroutines-alive-after-close", "%d goroutine(s) alive 3 s (virtual) after Server.Close and World.Close (%s):\n%s", len(lk), pc.Name, lk[0]))
		}
	}
	switch pc.Kind {
	case "splits", "fuzz":
		sw, err := c18NewSrvWorld(pc, c18SrvOpt{})
		if err != nil {
			harness(err)
			return
		}
		if pc.Kind == "splits" {
			// one message, every cut position in [A, A+B) on its own stream
			for p := pc.A; p < pc.A+pc.B; p++ {
				path := sw.path(2000, "")
				m := c18BuildMsg(rand.New(rand.NewPCG(uint64(pc.C), 1)), c18ReqHead(path, c18Field{"content-length", "600"}), c18MsgOpt{Unknown: true, SmallUnk: true, Trailers: true, BodyLen: 600, Frames: 3}, 11)
				if p >= len(m.Bytes) {
					break
				}
				res := c18RawExchange(sw.ctx, sw.conn, c18Cuts(m.Bytes, p), time.Millisecond, "fin", 0)
				r.eval(fmt.Sprintf("splits/%d", min(p, 400)), sw.checkClean(r, "split-request", path, m, 2000, res)...)
				r.count("peer_split_positions_server", 1)
			}
		} else {
			for i := 0; i < pc.A; i++ {
				bl := []int{0, 1, 50, 1200, 5000, 20000}[rng.IntN(6)]
				respLen := []int{0, 10, 4095, 4096, 9000}[rng.IntN(5)]
				extra := ""
				if rng.IntN(2) == 0 {
					extra = "&flush=1"
				}
				path := sw.path(respLen, extra)
				head := c18ReqHead(path)
				if rng.IntN(2) == 0 {
					head = append(head, c18Field{"content-length", strconv.Itoa(bl)})
				}
				m := c18BuildMsg(rng, head, c18MsgOpt{Unknown: true, Trailers: rng.IntN(2) == 0, BodyLen: bl, Frames: rng.IntN(5)}, uint64(i)+pc.Seed)
				if len(m.Body) > 0 && !strings.Contains(strings.Join(m.Parts, ","), "data") {
					m.Body = nil // Frames == 0: no body was sent
					if c18FieldValue(head, "content-length") != "" {
						continue
					}
				}
				var cuts []int
				for j := rng.IntN(4); j > 0; j-- {
					cuts = append(cuts, 1+rng.IntN(len(m.Bytes)))
				}
				sortInts(cuts)
				res := c18RawExchange(sw.ctx, sw.conn, c18Cuts(m.Bytes, cuts...), time.Duration(rng.IntN(3))*time.Millisecond, "fin", 0)
				r.eval(fmt.Sprintf("fuzz/u%d/c%d/%s/%s", min(m.Unknown, 3), len(cuts), c18SizeBucket(bl), c18SizeBucket(respLen)), sw.checkClean(r, "unknown-frames-and-splits", path, m, respLen, res)...)
				r.count("peer_unknown_frames_sent_server", int64(m.Unknown))
			}
		}
		leak(sw.close())

	case "unknown-uni":
		sw, err := c18NewSrvWorld(pc, c18SrvOpt{})
		if err != nil {
			harness(err)
			return
		}
		for i := 0; i < 1+pc.A; i++ {
			us, err := sw.conn.OpenUniStream()
			if err != nil {
				harness(err)
				break
			}
			t := []uint64{0x21, 0x1f*9 + 0x21, 0x4, 0x54, 0x1f*0x1234567 + 0x21, 0x3ffffffffffffffe}[rng.IntN(6)]
			us.Write(append(c18AppendVarint(nil, t), c18Bytes(t, []int{0, 1, 100, 3000}[rng.IntN(4)])...))
			switch rng.IntN(3) {
			case 0:
				us.Close()
			case 1:
				us.CancelWrite(quic.StreamErrorCode(c18ErrNoError))
			}
			r.count("peer_unknown_uni_streams_server", 1)
		}
		time.Sleep(50 * time.Millisecond)
		code, cause := c18ConnClosed(sw.conn, 500*time.Millisecond)
		if code != -2 {
			r.eval("unknown-uni", r.viol("server|unknown-stream-type-not-ignored", "connection ended: %s", cause))
		} else {
			sw.followUp(r, "unknown-uni")
		}
		leak(sw.close())

	case "forbidden":
		list := c18ForbiddenList(false)
		fb := &list[pc.A%len(list)]
		sw, err := c18NewSrvWorld(pc, c18SrvOpt{NoControl: fb.Where == "control-first"})
		if err != nil {
			harness(err)
			return
		}
		bad := fb.Build(rng)
		switch fb.Where {
		case "request":
			path := sw.path(100, "")
			msg := c18ForbiddenMsg(rng, c18ReqHead(path), fb.Pos, bad)
			var cuts []int
			if pc.B > 0 {
				cuts = append(cuts, 1+rng.IntN(len(msg)-1))
			}
			c18RawExchange(sw.ctx, sw.conn, c18Cuts(msg, cuts...), time.Millisecond, "fin", 0)
		case "control-first", "control-after", "uni":
			us := sw.ctrl
			if fb.Where != "control-after" {
				us, err = sw.conn.OpenUniStream()
				if err != nil {
					harness(err)
					break
				}
				if fb.Where == "control-first" {
					bad = append([]byte{c18StreamControl}, bad...)
				}
			}
			if fb.Pos == 2 { // the stream type must be sent twice (the first one is legal)
				us.Write(bad)
				us, _ = sw.conn.OpenUniStream()
			}
			time.Sleep(time.Duration(pc.B) * time.Millisecond)
			if fb.Where == "control-after" {
				time.Sleep(50 * time.Millisecond) // SETTINGS must have been delivered: a reset may discard undelivered data
			}
			if len(bad) > 0 && us != nil {
				for _, p := range c18Cuts(bad, pc.B) {
					us.Write(p)
					time.Sleep(time.Millisecond)
				}
			}
			switch fb.End {
			case "fin":
				us.Close()
			case "reset":
				us.CancelWrite(quic.StreamErrorCode(c18ErrNoError))
			}
		}
		code, cause := c18ConnClosed(sw.conn, 2*time.Second)
		c18CheckForbidden(r, "server", fb, code, cause)
		leak(sw.close())

	case "cl-mismatch":
		sw, err := c18NewSrvWorld(pc, c18SrvOpt{})
		if err != nil {
			harness(err)
			return
		}
		type variant struct {
			name     string
			declared int
			frames   []int
		}
		vars := []variant{
			{"short/one-frame", 10, []int{4}}, {"short/no-data", 10, nil}, {"short/off-by-one", 5000, []int{4999}}, {"short/two-frames", 10, []int{4, 5}}, {"short/empty-frame", 3, []int{0}},
			{"long/one-frame", 10, []int{11}}, {"long/extra-frame", 10, []int{10, 1}}, {"long/after-empty-frame", 10, []int{10, 0, 3}}, {"long/declared-zero", 0, []int{1}}, {"long/much", 10, []int{5000}},
			{"exact/one", 10, []int{10}}, {"exact/three", 10, []int{3, 0, 7}}, {"exact/zero", 0, nil}, {"exact/zero-empty-frame", 0, []int{0}},
		}
		vr := vars[pc.A%len(vars)]
		path := sw.path(300, "")
		p, _, _ := strings.Cut(path, "?")
		msg := c18HeadersFrame(c18ReqHead(path, c18Field{"content-length", strconv.Itoa(vr.declared)}))
		total := 0
		for _, n := range vr.frames {
			msg = append(msg, c18Frame(c18FrameData, c18Bytes(uint64(total), n))...)
			total += n
		}
		var cuts []int
		if pc.B > 0 {
			cuts = append(cuts, 1+rng.IntN(len(msg)-1))
		}
		res := c18RawExchange(sw.ctx, sw.conn, c18Cuts(msg, cuts...), time.Millisecond, "fin", 0)
		seen := sw.h.get(p)
		var vs []c18Viol
		kind, _, _ := strings.Cut(vr.name, "/")
		switch {
		case seen != nil && seen.Panic != "":
			tail, _ := c18ClassifyPanic("panic: " + seen.Panic)
			vs = append(vs, r.viol("server|"+tail, "%s", seen.Panic))
		case seen != nil && seen.ReadErr == c18Livelock:
			vs = append(vs, r.viol("server|request-body-read-never-ends", "%s: content-length %d, DATA frames %v: after %d bytes Body.Read keeps returning (0, nil)", vr.name, vr.declared, vr.frames, len(seen.Body)))
		case kind == "exact":
			if seen == nil || seen.ReadErr != "" || len(seen.Body) != total {
				vs = append(vs, r.viol("server|scripted|exact-content-length-rejected", "%s: seen %+v", vr.name, seen))
			}
		case seen == nil:
			// rejected before the handler ran: fine, provided the stream was aborted
			if res.ReadErr == nil {
				vs = append(vs, r.viol("server|content-length|"+kind+"-request-body-no-error", "%s: handler not invoked and the stream ended cleanly (%d bytes)", vr.name, len(res.Data)))
			}
		case seen.ReadErr == "":
			vs = append(vs, r.viol("server|content-length|"+kind+"-request-body-read-as-clean-EOF", "%s: content-length %d, DATA frames %v; the handler read %d bytes and then io.EOF without an error", vr.name, vr.declared, vr.frames, len(seen.Body)))
		case len(seen.Body) > vr.declared:
			vs = append(vs, r.viol("server|content-length|request-body-extended", "%s: handler was given %d bytes, declared %d", vr.name, len(seen.Body), vr.declared))
		}
		if kind == "long" {
			if code, ok := c18StreamCode(res.ReadErr); ok && code != c18ErrMessageError {
				vs = append(vs, r.viol("server|content-length|wrong-stream-error", "%s: stream reset with %#x, RFC 9114 4.1.2 demands H3_MESSAGE_ERROR (0x10e)", vr.name, code))
			}
		}
		r.eval("cl-mismatch/"+vr.name, vs...)
		r.count("peer_cl_mismatch_server", 1)
		if code, cause := c18ConnClosed(sw.conn, 100*time.Millisecond); code != -2 {
			r.eval("cl-mismatch/conn", r.viol("server|scripted|connection-lost-after-malformed-request", "%s", cause))
		} else {
			sw.followUp(r, "cl-mismatch")
		}
		leak(sw.close())

	case "reset-at", "bad-trailer-decl", "oversize":
		c18RunSrvAbortCase(r, rng, harness, leak)
	default:
		harness(fmt.Errorf("unknown kind %q", pc.Kind))
	}
}

func c18RunSrvAbortCase(r *c18PeerRun, rng *rand.Rand, harness func(error), leak func([]string)) {
	pc := r.pc
	switch pc.Kind {
	case "bad-trailer-decl":
		sw, err := c18NewSrvWorld(pc, c18SrvOpt{BadDecl: 1 + pc.A%2})
		if err != nil {
			harness(err)
			return
		}
		// small (buffered until the handler returned) and large (written inside the handler) responses
		for _, n := range []int{10, 9000} {
			path := sw.path(n, "")
			m := c18BuildMsg(rng, c18ReqHead(path), c18MsgOpt{BodyLen: 10, Frames: 1}, 3)
			res := c18RawExchange(sw.ctx, sw.conn, [][]byte{m.Bytes}, 0, "fin", 0)
			r.eval(fmt.Sprintf("bad-trailer-decl/%d/%d", pc.A%2, n), sw.checkClean(r, "forbidden-trailer-name-declared-by-handler", path, m, n, res)...)
		}
		leak(sw.close())

	case "oversize":
		sw, err := c18NewSrvWorld(pc, c18SrvOpt{MaxHeaderBytes: 4096})
		if err != nil {
			harness(err)
			return
		}
		path := sw.path(10, "")
		p, _, _ := strings.Cut(path, "?")
		var head []c18Field
		if pc.A%2 == 0 {
			head = c18ReqHead(path, c18Field{"x-big", strings.Repeat("v", 6000)})
		} else {
			head = c18ReqHead(path)
			for i := 0; i < 200; i++ {
				head = append(head, c18Field{"x-f" + strconv.Itoa(i), "1"})
			}
		}
		res := c18RawExchange(sw.ctx, sw.conn, [][]byte{c18HeadersFrame(head)}, 0, "fin", 0)
		var vs []c18Viol
		if sw.h.get(p) != nil {
			vs = append(vs, r.viol("server|oversize-field-section-accepted", "MaxHeaderBytes 4096; the handler was invoked"))
		} else if res.ReadErr == nil {
			if fr, err := c18ParseFrames(res.Data); err != nil || len(fr) == 0 || c18FieldValue(fr[0].Fields, ":status") != "431" {
				vs = append(vs, r.viol("server|oversize-field-section-no-431", "stream ended cleanly with %d bytes (%v)", len(res.Data), err))
			}
		}
		r.eval(fmt.Sprintf("oversize/%d", pc.A%2), vs...)
		sw.followUp(r, "oversize")
		leak(sw.close())

	case "reset-at":
		// A: cut position index, B: action
		actions := []string{"reset", "stop", "reset+stop", "close-conn", "close-conn-error", "blackhole", "fin-early"}
		act := actions[pc.B%len(actions)]
		o := c18SrvOpt{}
		if act == "blackhole" {
			o.IdleTimeout = 5 * time.Second
		}
		sw, err := c18NewSrvWorld(pc, o)
		if err != nil {
			harness(err)
			return
		}
		path := sw.path(6000, "&flush=1")
		p, _, _ := strings.Cut(path, "?")
		m := c18BuildMsg(rand.New(rand.NewPCG(uint64(pc.C), 2)), c18ReqHead(path), c18MsgOpt{Unknown: true, SmallUnk: true, Trailers: true, BodyLen: 3000, Frames: 2}, 21)
		// cut positions: every frame boundary, one byte after it, and the middle of every frame
		var cutsAt []int
		for i, b := range m.Bounds {
			cutsAt = append(cutsAt, b)
			if i+1 < len(m.Bounds) {
				cutsAt = append(cutsAt, b+1, (b+m.Bounds[i+1])/2)
			}
		}
		cut := cutsAt[pc.A%len(cutsAt)]
		complete := cut >= len(m.Bytes)
		pieces := [][]byte{m.Bytes[:cut]}
		var res *c18RawResult
		code := uint64(c18ErrRequestCanceled)
		switch act {
		case "reset", "reset+stop":
			res = c18RawExchange(sw.ctx, sw.conn, pieces, 0, act, code)
		case "stop":
			// the whole request, but the response is refused
			res = c18RawExchange(sw.ctx, sw.conn, [][]byte{m.Bytes}, 0, "stop", code)
			complete = true
		case "fin-early":
			res = c18RawExchange(sw.ctx, sw.conn, pieces, 0, "fin", 0)
		default:
			str, err := sw.conn.OpenStreamSync(sw.ctx)
			if err != nil {
				harness(err)
				break
			}
			str.Write(m.Bytes[:cut])
			time.Sleep(time.Duration(pc.C%3) * 5 * time.Millisecond)
			switch act {
			case "close-conn":
				sw.conn.CloseWithError(quic.ApplicationErrorCode(c18ErrNoError), "")
			case "close-conn-error":
				sw.conn.CloseWithError(quic.ApplicationErrorCode(c18ErrGeneralProtocol), "bye")
			case "blackhole":
				sw.w.Router.SetBlackhole(wiretap.C2S, true)
				sw.w.Router.SetBlackhole(wiretap.S2C, true)
				time.Sleep(12 * time.Second)
			}
			time.Sleep(200 * time.Millisecond)
		}
		time.Sleep(100 * time.Millisecond)
		seen := sw.h.get(p)
		var vs []c18Viol
		if seen != nil && seen.Panic != "" {
			tail, _ := c18ClassifyPanic("panic: " + seen.Panic)
			vs = append(vs, r.viol("server|"+tail, "%s", seen.Panic))
		}
		if seen != nil && !complete && act != "fin-early" && seen.ReadErr == "" && seen.Done {
			vs = append(vs, r.viol("server|aborted-request-read-as-complete", "request cut at byte %d of %d then %s; the handler read %d body bytes and a clean io.EOF", cut, len(m.Bytes), act, len(seen.Body)))
		}
		if seen != nil && len(seen.Body) > 0 && !bytes.HasPrefix(m.Body, seen.Body) {
			vs = append(vs, r.viol("server|scripted|aborted-request-body-corrupt", "the %d bytes the handler read are not a prefix of the body", len(seen.Body)))
		}
		_ = res
		r.eval(fmt.Sprintf("reset-at/%s/%s", act, m.partAt(cut)), vs...)
		r.count("peer_aborts_server", 1)
		if act == "reset" || act == "stop" || act == "reset+stop" || act == "fin-early" {
			if code, cause := c18ConnClosed(sw.conn, 100*time.Millisecond); code != -2 {
				r.eval("reset-at/conn", r.viol("server|scripted|connection-lost-after-stream-abort", "%s after %s at %d", cause, act, cut))
			} else {
				sw.followUp(r, "reset-at")
			}
		}
		leak(sw.close())
	}
}

func (m *c18Msg) partAt(off int) string {
	if off >= len(m.Bytes) {
		return "end"
	}
	for i := len(m.Parts) - 1; i >= 0; i-- {
		if off > m.Bounds[i] {
			return m.Parts[i] + "+"
		}
		if off == m.Bounds[i] {
			return "before-" + m.Parts[i]
		}
	}
	return "end"
}

func sortInts(a []int) {
	for i := 1; i < len(a); i++ {
		for j := i; j > 0 && a[j] < a[j-1]; j-- {
			a[j], a[j-1] = a[j-1], a[j]
		}
	}
}
