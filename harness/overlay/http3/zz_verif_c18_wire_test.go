package http3_test

// C18 — the monitor's own small HTTP/3 wire layer for the scripted peers: varints, frames,
// SETTINGS, field sections (github.com/quic-go/qpack, which is not code under test), and an
// offline frame parser for what the real endpoint answered.  Nothing here uses package http3 or
// quicvarint of the repository.

import (
	"bytes"
	"errors"
	"fmt"
	"io"

	"github.com/quic-go/qpack"
)

const (
	c18FrameData     = 0x0
	c18FrameHeaders  = 0x1
	c18FrameSettings = 0x4
	c18FrameGoAway   = 0x7

	c18StreamControl  = 0x0
	c18StreamPush     = 0x1
	c18StreamQPACKEnc = 0x2
	c18StreamQPACKDec = 0x3

	c18ErrNoError            = 0x100
	c18ErrGeneralProtocol    = 0x101
	c18ErrInternal           = 0x102
	c18ErrStreamCreation     = 0x103
	c18ErrClosedCritical     = 0x104
	c18ErrFrameUnexpected    = 0x105
	c18ErrFrameError         = 0x106
	c18ErrExcessiveLoad      = 0x107
	c18ErrIDError            = 0x108
	c18ErrSettingsError      = 0x109
	c18ErrMissingSettings    = 0x10a
	c18ErrRequestRejected    = 0x10b
	c18ErrRequestCanceled    = 0x10c
	c18ErrRequestIncomplete  = 0x10d
	c18ErrMessageError       = 0x10e
	c18ErrConnectError       = 0x10f
	c18ErrVersionFallback    = 0x110
	c18ErrQPACKDecompression = 0x200
)

// c18AppendVarint appends the shortest QUIC varint encoding of v; minLen (1,2,4,8) forces a longer one.
func c18AppendVarint(b []byte, v uint64, minLen ...int) []byte {
	n := 1
	switch {
	case v >= 1<<30:
		n = 8
	case v >= 1<<14:
		n = 4
	case v >= 1<<6:
		n = 2
	}
	if len(minLen) > 0 && minLen[0] > n {
		n = minLen[0]
	}
	switch n {
	case 1:
		return append(b, byte(v))
	case 2:
		return append(b, byte(v>>8)|0x40, byte(v))
	case 4:
		return append(b, byte(v>>24)|0x80, byte(v>>16), byte(v>>8), byte(v))
	default:
		return append(b, byte(v>>56)|0xc0, byte(v>>48), byte(v>>40), byte(v>>32), byte(v>>24), byte(v>>16), byte(v>>8), byte(v))
	}
}

func c18ReadVarint(b []byte) (v uint64, n int, err error) {
	if len(b) == 0 {
		return 0, 0, io.ErrUnexpectedEOF
	}
	n = 1 << (b[0] >> 6)
	if len(b) < n {
		return 0, 0, io.ErrUnexpectedEOF
	}
	v = uint64(b[0] & 0x3f)
	for i := 1; i < n; i++ {
		v = v<<8 | uint64(b[i])
	}
	return v, n, nil
}

// c18Frame encodes one frame.
func c18Frame(t uint64, payload []byte) []byte {
	b := c18AppendVarint(nil, t)
	b = c18AppendVarint(b, uint64(len(payload)))
	return append(b, payload...)
}

// c18FrameHdr encodes only type and length (for frames whose declared length differs from what follows).
func c18FrameHdr(t uint64, length uint64) []byte {
	return c18AppendVarint(c18AppendVarint(nil, t), length)
}

func c18SettingsFrame(pairs ...uint64) []byte {
	var p []byte
	for _, v := range pairs {
		p = c18AppendVarint(p, v)
	}
	return c18Frame(c18FrameSettings, p)
}

type c18Field struct{ Name, Value string }

func c18FieldSection(fields []c18Field) []byte {
	var buf bytes.Buffer
	enc := qpack.NewEncoder(&buf)
	for _, f := range fields {
		if err := enc.WriteField(qpack.HeaderField{Name: f.Name, Value: f.Value}); err != nil {
			panic(err)
		}
	}
	return buf.Bytes()
}

func c18HeadersFrame(fields []c18Field) []byte {
	return c18Frame(c18FrameHeaders, c18FieldSection(fields))
}

// c18ParsedFrame is one frame of a byte stream the real endpoint wrote.
type c18ParsedFrame struct {
	Type    uint64
	Payload []byte
	Fields  []c18Field // decoded field section for HEADERS
}

// c18ParseFrames parses a complete stream; a trailing partial frame is reported as an error.
func c18ParseFrames(b []byte) ([]c18ParsedFrame, error) {
	var out []c18ParsedFrame
	for len(b) > 0 {
		t, n, err := c18ReadVarint(b)
		if err != nil {
			return out, fmt.Errorf("truncated frame type: %w", err)
		}
		b = b[n:]
		l, n, err := c18ReadVarint(b)
		if err != nil {
			return out, fmt.Errorf("truncated frame length: %w", err)
		}
		b = b[n:]
		if uint64(len(b)) < l {
			return out, fmt.Errorf("frame type %#x: payload truncated (%d of %d)", t, len(b), l)
		}
		f := c18ParsedFrame{Type: t, Payload: b[:l]}
		b = b[l:]
		if t == c18FrameHeaders {
			dec := qpack.NewDecoder()
			next := dec.Decode(f.Payload)
			for {
				hf, err := next()
				if err == io.EOF {
					break
				}
				if err != nil {
					return out, fmt.Errorf("qpack: %w", err)
				}
				f.Fields = append(f.Fields, c18Field{hf.Name, hf.Value})
			}
		}
		out = append(out, f)
	}
	return out, nil
}

// c18Message is an HTTP message reassembled from frames by the monitor's own parser.
type c18Message struct {
	Informational [][]c18Field
	Head          []c18Field
	Body          []byte
	Trailers      []c18Field
	Unknown       int
}

func c18Assemble(frames []c18ParsedFrame, isResponse bool) (*c18Message, error) {
	m := &c18Message{}
	state := 0 // 0 = before head, 1 = body, 2 = after trailers
	for _, f := range frames {
		switch f.Type {
		case c18FrameHeaders:
			switch state {
			case 0:
				if isResponse && c18FieldValue(f.Fields, ":status") != "" && c18FieldValue(f.Fields, ":status")[0] == '1' {
					m.Informational = append(m.Informational, f.Fields)
					continue
				}
				m.Head = f.Fields
				state = 1
			case 1:
				m.Trailers = f.Fields
				state = 2
			default:
				return m, errors.New("HEADERS after trailers")
			}
		case c18FrameData:
			if state != 1 {
				return m, errors.New("DATA outside of the body")
			}
			m.Body = append(m.Body, f.Payload...)
		case 0x2, 0x4, 0x6, 0x7, 0x8, 0x9, 0x3, 0x5, 0xd:
			return m, fmt.Errorf("frame type %#x on a request stream", f.Type)
		default:
			m.Unknown++
		}
	}
	if state == 0 {
		return m, errors.New("no HEADERS frame")
	}
	return m, nil
}

func c18FieldValue(fs []c18Field, name string) string {
	for _, f := range fs {
		if f.Name == name {
			return f.Value
		}
	}
	return ""
}

// c18Bytes is the position-dependent payload of (key, offset..offset+n).
func c18Bytes(key uint64, n int) []byte {
	b := make([]byte, n)
	for i := 0; i < n; i += 8 {
		x := key*0x9E3779B97F4A7C15 + uint64(i/8)*0xBF58476D1CE4E5B9 + 0x94D049BB133111EB
		x ^= x >> 30
		x *= 0xBF58476D1CE4E5B9
		x ^= x >> 27
		x *= 0x94D049BB133111EB
		x ^= x >> 31
		for j := 0; j < 8 && i+j < n; j++ {
			b[i+j] = byte(x >> (8 * j))
		}
	}
	return b
}
