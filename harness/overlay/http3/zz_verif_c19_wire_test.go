package http3

// C19, error signalling: hostile field sections are sent over a real QUIC connection pair (localhost
// sockets, as the repository's own server/client tests do) to the real http3.Server and to a real
// ClientConn, and the outcome seen by the peer is compared with the reference predicate:
// malformed ⇒ stream error H3_MESSAGE_ERROR (RFC 9114 §4.1.2), over the size limit ⇒ 431 or a
// stream error (§4.2.2), well-formed ⇒ handled (or, if the implementation is stricter, a stream
// error).  Time is only used for watchdogs (a missed deadline is reported as inconclusive).

import (
	"context"
	"errors"
	"fmt"
	"io"
	"net/http"
	"os"
	"testing"
	"time"

	quic "github.com/refraction-networking/uquic"
	"github.com/refraction-networking/uquic/internal/verif/evlog"
)

type c19WireCase struct {
	Name   string
	Fields []c19F
}

func c19ReqWireCases() []c19WireCase {
	get := func(extra ...c19F) []c19F {
		return append([]c19F{{Name: ":method", Value: "GET"}, {Name: ":scheme", Value: "https"}, {Name: ":authority", Value: "h"}, {Name: ":path", Value: "/p"}}, extra...)
	}
	return []c19WireCase{
		{"valid_get", get()},
		{"valid_get_fields", get(c19F{Name: "x-a", Value: "b"}, c19F{Name: "content-length", Value: "0"}, c19F{Name: "te", Value: "trailers"})},
		{"valid_connect", []c19F{{Name: ":method", Value: "CONNECT"}, {Name: ":authority", Value: "h:443"}}},
		{"uppercase_name", get(c19F{Name: "X-A", Value: "b"})},
		{"invalid_name", get(c19F{Name: "x a", Value: "b"})},
		{"empty_name", get(c19F{Name: "", Value: "b"})},
		{"value_nul", get(c19F{Name: "x-a", Value: "b\x00c"})},
		{"value_lf", get(c19F{Name: "x-a", Value: "b\nc"})},
		{"connection", get(c19F{Name: "connection", Value: "close"})},
		{"transfer_encoding", get(c19F{Name: "transfer-encoding", Value: "chunked"})},
		{"upgrade", get(c19F{Name: "upgrade", Value: "websocket"})},
		{"keep_alive", get(c19F{Name: "keep-alive", Value: "x"})},
		{"proxy_connection", get(c19F{Name: "proxy-connection", Value: "x"})},
		{"te_gzip", get(c19F{Name: "te", Value: "gzip"})},
		{"unknown_pseudo", get(c19F{Name: ":foo", Value: "x"})[:5]},
		{"status_in_request", append([]c19F{{Name: ":status", Value: "200"}}, get()...)},
		{"pseudo_after_regular", append(get(c19F{Name: "x-a", Value: "b"})[2:], c19F{Name: ":method", Value: "GET"}, c19F{Name: ":scheme", Value: "https"})},
		{"dup_path", get(c19F{Name: ":path", Value: "/q"})},
		{"dup_path_after_empty", append([]c19F{{Name: ":path", Value: ""}}, get()...)},
		{"dup_authority_after_empty", append([]c19F{{Name: ":authority", Value: ""}}, get()...)},
		{"cl_plus", get(c19F{Name: "content-length", Value: "+5"})},
		{"cl_contradictory", get(c19F{Name: "content-length", Value: "5"}, c19F{Name: "content-length", Value: "6"})},
		{"cl_empty", get(c19F{Name: "content-length", Value: ""})},
		{"protocol_without_connect", get(c19F{Name: ":protocol", Value: "webtransport"})},
		{"connect_with_path", []c19F{{Name: ":method", Value: "CONNECT"}, {Name: ":authority", Value: "h:443"}, {Name: ":path", Value: "/p"}}},
	}
}

func c19HeadersFrame(fields []c19F) ([]byte, error) {
	blk, err := c19QpackEncode(fields)
	if err != nil {
		return nil, err
	}
	b := c19AppendVarint(nil, 0x1)
	b = c19AppendVarint(b, uint64(len(blk)))
	return append(b, blk...), nil
}

const c19MessageError = 0x10e

type c19Seen struct {
	Method, Host, URI string
	Header            http.Header
}

func TestVerifC19Wire(t *testing.T) {
	l := evlog.Open("C19")
	defer l.Close()
	st := &c19Stats{n: map[string]int64{}}
	if !l.Mine(0) {
		return
	}

	// ---- server side
	for _, limit := range []int{0, 300} {
		effLimit := limit
		if limit == 0 {
			effLimit = http.DefaultMaxHeaderBytes
		}
		id := fmt.Sprintf("C19/wire/server/limit%d", limit)
		c := l.Begin(id, map[string]any{"max_header_bytes": limit})
		if c == nil {
			continue
		}
		seen := make(chan c19Seen, 16)
		srv := &Server{MaxHeaderBytes: limit, Handler: http.HandlerFunc(func(w http.ResponseWriter, r *http.Request) {
			select {
			case seen <- c19Seen{r.Method, r.Host, r.RequestURI, r.Header}:
			default:
			}
			w.WriteHeader(200)
		})}
		clientConn, serverConn := newConnPair(t)
		go srv.ServeQUICConn(serverConn)

		cases := c19ReqWireCases()
		rng := l.Rand(id)
		for i, n := 0, l.Pick(120, 600); i < n; i++ {
			list := c19RandBase(rng, c19Req)
			for m := rng.IntN(3); m > 0; m-- {
				list = c19Mutate(rng, list)
			}
			cases = append(cases, c19WireCase{fmt.Sprintf("random%03d", i), list})
		}
		if limit != 0 {
			cases = append(cases, c19WireCase{"oversize", []c19F{{Name: ":method", Value: "GET"}, {Name: ":scheme", Value: "https"}, {Name: ":authority", Value: "h"}, {Name: ":path", Value: "/p"},
				{Name: "x-a", Value: "0123456789012345678901234567890123456789012345678901234567890123456789"}, {Name: "x-b", Value: "0123456789012345678901234567890123456789"}}})
		}
		for _, wc := range cases {
			frame, err := c19HeadersFrame(wc.Fields)
			if err != nil {
				continue
			}
			// what the decoder yields is what the oracle judges
			got, derr := c19QpackDecode(mustBlock(frame))
			if derr != nil {
				continue
			}
			j := c19Judge(c19Req, got, effLimit)
			for len(seen) > 0 {
				<-seen
			}
			str, err := clientConn.OpenStream()
			if err != nil {
				c.Inconclusive("OpenStream: " + err.Error())
				break
			}
			str.Write(frame)
			str.Close()
			str.SetReadDeadline(time.Now().Add(10 * time.Second))
			data, rerr := io.ReadAll(str)
			st.add("wire_server_requests")
			trace := map[string]any{"case": wc.Name, "wire": c19Trace(c19Req, got, effLimit, "quic")}
			outcome := ""
			var se *quic.StreamError
			switch {
			case errors.As(rerr, &se):
				outcome = fmt.Sprintf("reset:%#x", uint64(se.ErrorCode))
			case errors.Is(rerr, os.ErrDeadlineExceeded):
				c.Inconclusive("no answer within 10 s for " + wc.Name)
				str.CancelRead(0)
				continue
			case rerr != nil:
				c.Inconclusive("read: " + rerr.Error())
				continue
			default:
				frames, err := c19Frames(data)
				if err != nil || len(frames) == 0 || frames[0].Type != 0x1 {
					c19V(c, "C19|server|bad_response_framing", fmt.Sprintf("%v %v", frames, err), trace)
					continue
				}
				rf, _ := c19QpackDecode(frames[0].Payload)
				for _, f := range rf {
					if f.Name == ":status" {
						outcome = "status:" + f.Value
					}
				}
			}
			st.add("wire_server_" + outcome)
			fp := fmt.Sprintf("wire/server/%x/%s", j.mask, outcome)
			c.Eval(fp)
			switch {
			case outcome == "status:200":
				if j.mask != 0 {
					var s c19Seen
					select {
					case s = <-seen:
					default:
					}
					c19V(c, "C19|server|accepted_unsafe|"+c19FirstReason(j.mask), fmt.Sprintf("the handler was invoked for a malformed request %v; it saw Method=%q Host=%q RequestURI=%q Header=%v", c19ReasonList(j.mask), s.Method, s.Host, s.URI, s.Header), trace)
				}
			case outcome == "status:431":
				if j.mask&c19rSize == 0 {
					c19V(c, "C19|server|wrong_error_code|431_within_limit", fmt.Sprintf("431 for a section of size %d, limit %d", j.size, effLimit), trace)
				}
			case outcome == fmt.Sprintf("reset:%#x", c19MessageError):
				if j.mask == 0 {
					st.add("wire_server_stricter_than_predicate")
				}
			default:
				// some other reset code or status
				if j.mask&c19rSize != 0 && outcome == fmt.Sprintf("reset:%#x", uint64(ErrCodeExcessiveLoad)) {
					break
				}
				if j.mask != 0 {
					c19V(c, "C19|server|wrong_error_code", fmt.Sprintf("malformed request %v answered with %s, want stream error H3_MESSAGE_ERROR (0x10e)", c19ReasonList(j.mask), outcome), trace)
				} else {
					c19V(c, "C19|server|wellformed_not_handled", fmt.Sprintf("well-formed request answered with %s", outcome), trace)
				}
			}
		}
		st.flush(l)
		c.End()
		clientConn.CloseWithError(0, "")
		serverConn.CloseWithError(0, "")
	}

	// ---- client side
	id := "C19/wire/client"
	c := l.Begin(id, nil)
	if c == nil {
		return
	}
	rsp := func(extra ...c19F) []c19F { return append([]c19F{{Name: ":status", Value: "200"}}, extra...) }
	cases := []c19WireCase{
		{"valid", rsp(c19F{Name: "x-a", Value: "b"}, c19F{Name: "content-length", Value: "0"})},
		{"uppercase_name", rsp(c19F{Name: "X-A", Value: "b"})},
		{"invalid_name", rsp(c19F{Name: "x a", Value: "b"})},
		{"value_cr", rsp(c19F{Name: "x-a", Value: "b\rc"})},
		{"connection", rsp(c19F{Name: "connection", Value: "close"})},
		{"te_gzip", rsp(c19F{Name: "te", Value: "gzip"})},
		{"method_in_response", rsp(c19F{Name: ":method", Value: "GET"})[:2]},
		{"unknown_pseudo", append([]c19F{{Name: ":foo", Value: "x"}}, rsp()...)},
		{"pseudo_after_regular", []c19F{{Name: "x-a", Value: "b"}, {Name: ":status", Value: "200"}}},
		{"dup_status", rsp(c19F{Name: ":status", Value: "404"})[:2]},
		{"dup_status_after_empty", append([]c19F{{Name: ":status", Value: ""}}, rsp()...)},
		{"cl_plus", rsp(c19F{Name: "content-length", Value: "+0"})},
		{"cl_empty", rsp(c19F{Name: "content-length", Value: ""})},
		{"cl_contradictory", rsp(c19F{Name: "content-length", Value: "0"}, c19F{Name: "content-length", Value: "1"})},
	}
	rng := l.Rand(id)
	for i, n := 0, l.Pick(60, 400); i < n; i++ {
		list := c19RandBase(rng, c19Resp)
		list[0].Value = []string{"200", "404", "500"}[rng.IntN(3)]
		for m := rng.IntN(3); m > 0; m-- {
			list = c19Mutate(rng, list)
		}
		skip := false
		for _, f := range list {
			if f.Name == ":status" && (len(f.Value) == 0 || f.Value[0] == '1') {
				skip = true // an informational response makes the client wait for the final one
			}
		}
		if !skip {
			cases = append(cases, c19WireCase{fmt.Sprintf("random%03d", i), list})
		}
	}
	clientConn, serverConn := newConnPair(t)
	cc := (&Transport{}).NewClientConn(clientConn)
	type rtResult struct {
		rsp *http.Response
		err error
	}
	for _, wc := range cases {
		frame, err := c19HeadersFrame(wc.Fields)
		if err != nil {
			continue
		}
		got, derr := c19QpackDecode(mustBlock(frame))
		if derr != nil {
			continue
		}
		j := c19Judge(c19Resp, got, 10<<20)
		ctx, cancel := context.WithTimeout(context.Background(), 10*time.Second)
		resCh := make(chan rtResult, 1)
		go func() {
			req, _ := http.NewRequestWithContext(ctx, http.MethodGet, "https://quic-go.net/", nil)
			r, err := cc.RoundTrip(req)
			resCh <- rtResult{r, err}
		}()
		str, err := serverConn.AcceptStream(ctx)
		if err != nil {
			cancel()
			c.Inconclusive("AcceptStream: " + err.Error())
			break
		}
		str.Write(frame)
		res := <-resCh
		st.add("wire_client_responses")
		trace := map[string]any{"case": wc.Name, "wire": c19Trace(c19Resp, got, 10<<20, "quic")}
		if res.err == nil {
			st.add("wire_client_accepted")
			c.Eval(fmt.Sprintf("wire/client/%x/acc", j.mask))
			if j.mask != 0 {
				c19V(c, "C19|client|accepted_unsafe|"+c19FirstReason(j.mask), fmt.Sprintf("RoundTrip returned a response for a malformed section %v: StatusCode=%d Header=%v", c19ReasonList(j.mask), res.rsp.StatusCode, res.rsp.Header), trace)
			}
			str.Close()
			str.CancelRead(0)
			res.rsp.Body.Close()
			cancel()
			continue
		}
		if ctx.Err() != nil {
			cancel()
			c.Inconclusive("RoundTrip did not return within 10 s for " + wc.Name)
			str.CancelWrite(0)
			continue
		}
		// rejected: the client must have reset the stream with H3_MESSAGE_ERROR
		select {
		case <-str.Context().Done():
		case <-ctx.Done():
		}
		_, werr := str.Write([]byte{0})
		cancel()
		str.CancelRead(0)
		str.CancelWrite(0)
		var se *quic.StreamError
		if !errors.As(werr, &se) {
			c.Inconclusive(fmt.Sprintf("no STOP_SENDING observed for %s (%v)", wc.Name, werr))
			str.CancelWrite(0)
			continue
		}
		st.add(fmt.Sprintf("wire_client_reset:%#x", uint64(se.ErrorCode)))
		c.Eval(fmt.Sprintf("wire/client/%x/reset:%#x", j.mask, uint64(se.ErrorCode)))
		if se.ErrorCode != c19MessageError {
			if j.mask != 0 {
				c19V(c, "C19|client|wrong_error_code", fmt.Sprintf("malformed response %v: stream reset with %#x, want H3_MESSAGE_ERROR (0x10e); RoundTrip error: %v", c19ReasonList(j.mask), uint64(se.ErrorCode), res.err), trace)
			} else {
				c19V(c, "C19|client|wellformed_not_handled", fmt.Sprintf("well-formed response: stream reset with %#x; RoundTrip error: %v", uint64(se.ErrorCode), res.err), trace)
			}
		} else if j.mask == 0 {
			st.add("wire_client_stricter_than_predicate")
		}
	}
	st.flush(l)
	c.End()
}

// mustBlock returns the payload of a single HEADERS frame built by c19HeadersFrame.
func mustBlock(frame []byte) []byte {
	fr, err := c19Frames(frame)
	if err != nil || len(fr) != 1 {
		return nil
	}
	return fr[0].Payload
}
