package http3_test

// C18 — generator of request/response exchanges (message + handler script) and the reference model
// of net/http-over-HTTP/3 semantics that says what the handler and the client must observe.
//
// Normalisations applied by the model (and nothing else):
//   - header names arrive in canonical MIME case; the order of values of one name is preserved;
//   - Host / req.Host <-> :authority; the request target is URL.RequestURI();
//   - Cookie request fields are joined with "; " into one field (RFC 9114 4.2.1 / RFC 6265 5.4);
//   - Content-Length: the sender may add one automatically; a declared one must arrive; the header
//     line itself is compared through Request/Response.ContentLength only;
//   - Date: added by the server unless the handler set it (or set it to nil: suppressed);
//   - Content-Type is sniffed when the handler did not set one (not compared then);
//   - User-Agent: a default is added when the client did not set one (not compared then), an explicitly
//     empty one is omitted, only the first value is sent (documented net/http behaviour);
//   - Accept-Encoding: gzip is added by the transport when the client did not set Accept-Encoding or
//     Range, the method is not HEAD and compression is not disabled; a gzip response to such a request
//     is decompressed transparently (Content-Encoding/Content-Length removed, Uncompressed set);
//   - "Trailer" announces trailers and is moved into Request/Response.Trailer; declared trailer names
//     and http.TrailerPrefix names are not part of the header block;
//   - HEAD, 1xx, 204, 304 carry no body (Write returns http.ErrBodyNotAllowed for 204/304);
//   - header map changes after WriteHeader/Write have no effect (http.ResponseWriter contract).

import (
	"bytes"
	"compress/gzip"
	"fmt"
	"math/rand/v2"
	"net/http"
	"sort"
	"strconv"
	"strings"
)

type c18KV struct {
	K string   `json:"k"`
	V []string `json:"v"`
}

type c18Info struct {
	Code int     `json:"code"`
	Hdr  []c18KV `json:"hdr,omitempty"`
}

// c18Exchange is one generated request + the handler's script for it.
type c18Exchange struct {
	ID     int    `json:"id"`
	Method string `json:"method"`
	Path   string `json:"path"` // below /c18/<id>, with query
	Host   string `json:"host,omitempty"`

	ReqHdr          []c18KV `json:"req_hdr,omitempty"`
	ReqBody         int     `json:"req_body"` // -1: nil Body
	ReqChunks       []int   `json:"req_chunks,omitempty"`
	ReqDeclared     bool    `json:"req_declared,omitempty"`
	ReqCLDelta      int     `json:"req_cl_delta,omitempty"` // declared = actual + delta
	ReqTrailers     []c18KV `json:"req_trailers,omitempty"`
	ReqTrailersLate bool    `json:"req_trailers_late,omitempty"` // values set while the body is read

	ReadMode string `json:"read_mode"` // before | after | interleaved | none | partial
	ReadBuf  int    `json:"read_buf"`

	Info             []c18Info `json:"info,omitempty"`
	Status           int       `json:"status"`
	ExplicitWH       bool      `json:"explicit_wh,omitempty"`
	DoubleWH         bool      `json:"double_wh,omitempty"`
	FlushAfterHeader bool      `json:"flush_after_header,omitempty"`
	LateHeader       bool      `json:"late_header,omitempty"` // a header set after WriteHeader: must have no effect
	RespHdr          []c18KV   `json:"resp_hdr,omitempty"`
	DateMode         string    `json:"date_mode,omitempty"` // "" | set | nil
	RespBody         int       `json:"resp_body"`
	RespChunks       []int     `json:"resp_chunks,omitempty"`
	FlushEvery       int       `json:"flush_every,omitempty"`
	RespDeclared     bool      `json:"resp_declared,omitempty"`
	RespCLDelta      int       `json:"resp_cl_delta,omitempty"`
	Gzip             string    `json:"gzip,omitempty"` // "" | if-accepted | always
	DeclTrailers     []c18KV   `json:"decl_trailers,omitempty"`
	DeclEarly        bool      `json:"decl_early,omitempty"` // values of declared trailers set before WriteHeader
	PrefixTrailers   []c18KV   `json:"prefix_trailers,omitempty"`

	ClientReadBuf int `json:"client_read_buf"`
}

const c18DateValue = "Tue, 15 Nov 1994 08:12:31 GMT"

var (
	c18Methods     = []string{"GET", "GET", "GET", "POST", "POST", "POST", "PUT", "PATCH", "DELETE", "OPTIONS", "HEAD", "HEAD", "PROPFIND", "M-SEARCH", "QUERY"}
	c18Statuses    = []int{200, 200, 200, 200, 201, 202, 203, 204, 206, 301, 302, 304, 400, 404, 418, 429, 500, 503, 599}
	c18TrailerKeys = []string{"X-Trailer-A", "X-Trailer-B", "Etag", "Digest", "Server-Timing", "X-Checksum-Sha256"}
	c18ValueAlpha  = "abcdefghijklmnopqrstuvwxyzABCDEFGHIJKLMNOPQRSTUVWXYZ0123456789-._~:/?#[]@!$&'()*+,;=%\"<>\\^`{|} \t"
	c18PathAlpha   = "abcdefghijklmnopqrstuvwxyzABCDEFGHIJKLMNOPQRSTUVWXYZ0123456789-._~"
)

func c18Value(rng *rand.Rand, n int) string {
	if n == 0 {
		return ""
	}
	b := make([]byte, n)
	for i := range b {
		b[i] = c18ValueAlpha[rng.IntN(len(c18ValueAlpha))]
		if rng.IntN(40) == 0 {
			b[i] = byte(0x80 + rng.IntN(0x80)) // obs-text
		}
	}
	// no leading / trailing whitespace (field values are compared byte for byte)
	for _, i := range []int{0, n - 1} {
		if b[i] == ' ' || b[i] == '\t' {
			b[i] = 'x'
		}
	}
	return string(b)
}

func c18ValueLen(rng *rand.Rand) int {
	switch rng.IntN(10) {
	case 0:
		return 0
	case 1:
		return 1
	case 2:
		return 100 + rng.IntN(400)
	default:
		return 1 + rng.IntN(40)
	}
}

func c18Chunks(rng *rand.Rand) []int {
	var out []int
	n := 1 + rng.IntN(6)
	for i := 0; i < n; i++ {
		switch rng.IntN(8) {
		case 0:
			out = append(out, 1)
		case 1:
			out = append(out, 1+rng.IntN(16))
		case 2:
			out = append(out, 4095+rng.IntN(3))
		case 3:
			out = append(out, 8191+rng.IntN(3))
		case 4:
			out = append(out, 16000+rng.IntN(50000))
		case 5:
			out = append(out, 0) // an empty Write / a zero-byte Read
		default:
			out = append(out, 100+rng.IntN(3000))
		}
	}
	return out
}

func c18BodySize(rng *rand.Rand, big bool) int {
	switch rng.IntN(14) {
	case 0, 1:
		return 0
	case 2:
		return 1
	case 3:
		return 1 + rng.IntN(100)
	case 4:
		return 4094 + rng.IntN(4) // smallResponseBuf boundary
	case 5:
		return 8190 + rng.IntN(4) // body copy buffer boundary
	case 6:
		return 1150 + rng.IntN(200) // about one packet
	case 7, 8:
		return rng.IntN(20000)
	case 9:
		if big {
			return 200000 + rng.IntN(848576) // up to 1 MB
		}
		return 30000 + rng.IntN(70000)
	default:
		return 100 + rng.IntN(5000)
	}
}

func c18Trailers(rng *rand.Rand) []c18KV {
	var out []c18KV
	perm := rng.Perm(len(c18TrailerKeys))
	n := 1 + rng.IntN(3)
	for _, i := range perm[:n] {
		kv := c18KV{K: c18TrailerKeys[i]}
		for j := 0; j < 1+rng.IntN(2); j++ {
			kv.V = append(kv.V, c18Value(rng, 1+rng.IntN(30)))
		}
		out = append(out, kv)
	}
	return out
}

// c18GenExchange draws one exchange.  mismatch: 0 none, 1..4 the four Content-Length disagreements.
func c18GenExchange(rng *rand.Rand, id int, big bool, mismatch int) c18Exchange {
	ex := c18Exchange{ID: id, Method: c18Methods[rng.IntN(len(c18Methods))]}
	// target
	var p strings.Builder
	for i := rng.IntN(4); i > 0; i-- {
		p.WriteByte('/')
		switch rng.IntN(8) {
		case 0:
			p.WriteString("%20sp%C3%A9")
		case 1:
			p.WriteString("a%2Fb")
		case 2: // empty segment
		default:
			for j := 1 + rng.IntN(12); j > 0; j-- {
				p.WriteByte(c18PathAlpha[rng.IntN(len(c18PathAlpha))])
			}
		}
	}
	switch rng.IntN(4) {
	case 0:
		p.WriteString("?q=" + strconv.Itoa(rng.IntN(1000)))
	case 1:
		p.WriteString("?a=b&c=d%26e&empty=&k")
	}
	ex.Path = p.String()
	if rng.IntN(4) == 0 {
		ex.Host = []string{"verif.example", "verif.example:8443", "[::1]:9002", "a.b.c.d.example.org"}[rng.IntN(4)]
	}
	// request fields
	used := map[string]bool{}
	add := func(dst *[]c18KV, k string, v ...string) {
		ck := http.CanonicalHeaderKey(k)
		if used[ck] {
			return
		}
		used[ck] = true
		*dst = append(*dst, c18KV{k, v})
	}
	for i := rng.IntN(7); i > 0; i-- {
		switch rng.IntN(16) {
		case 0:
			add(&ex.ReqHdr, "X-Verif-A", c18Value(rng, c18ValueLen(rng)))
		case 1:
			var vs []string
			for j := 2 + rng.IntN(3); j > 0; j-- {
				vs = append(vs, c18Value(rng, c18ValueLen(rng)))
			}
			add(&ex.ReqHdr, "X-Multi", vs...)
		case 2:
			var vs []string
			for j := 1 + rng.IntN(4); j > 0; j-- {
				vs = append(vs, fmt.Sprintf("c%d=%d", j, rng.IntN(1000)))
				if rng.IntN(3) == 0 {
					vs[len(vs)-1] += "; d=" + strconv.Itoa(j)
				}
			}
			add(&ex.ReqHdr, "Cookie", vs...)
		case 3:
			add(&ex.ReqHdr, "Accept", "text/html, application/json;q=0.9, */*;q=0.8")
		case 4:
			add(&ex.ReqHdr, "Authorization", "Bearer "+c18Value(rng, 20))
		case 5:
			add(&ex.ReqHdr, "Content-Type", "application/octet-stream")
		case 6:
			add(&ex.ReqHdr, "x-lower-case", c18Value(rng, c18ValueLen(rng))) // stored non-canonically in the map
		case 7:
			add(&ex.ReqHdr, "X-Empty", "")
		case 8:
			add(&ex.ReqHdr, "X-Long", c18Value(rng, 1000+rng.IntN(7000)))
		case 9:
			add(&ex.ReqHdr, "Accept-Encoding", []string{"gzip", "identity", "br, gzip", "deflate"}[rng.IntN(4)])
		case 10:
			add(&ex.ReqHdr, "User-Agent", []string{"verif/1.0", "", "Mozilla/5.0 (X11; Linux x86_64)"}[rng.IntN(3)])
		case 11:
			add(&ex.ReqHdr, "Range", "bytes=0-")
		case 12:
			add(&ex.ReqHdr, "Te", "trailers")
		case 13:
			add(&ex.ReqHdr, "If-None-Match", `"abc", W/"def"`)
		case 14:
			add(&ex.ReqHdr, "Cache-Control", "no-cache", "no-store")
		default:
			add(&ex.ReqHdr, "X-Verif-B-"+strconv.Itoa(rng.IntN(5)), c18Value(rng, c18ValueLen(rng)))
		}
	}
	// request body
	ex.ReqBody = -1
	hasBody := ex.Method == "POST" || ex.Method == "PUT" || ex.Method == "PATCH" || ex.Method == "QUERY" || ex.Method == "PROPFIND"
	if ex.Method != "HEAD" && (hasBody && rng.IntN(8) != 0 || !hasBody && rng.IntN(5) == 0) {
		ex.ReqBody = c18BodySize(rng, big)
		ex.ReqChunks = c18Chunks(rng)
		ex.ReqDeclared = rng.IntN(2) == 0
		if rng.IntN(4) == 0 {
			ex.ReqTrailers = c18Trailers(rng)
			ex.ReqTrailersLate = rng.IntN(2) == 0
			if rng.IntN(5) != 0 {
				ex.ReqDeclared = false // net/http documents trailers for requests of unknown length
			}
		}
	}
	ex.ReadMode = []string{"before", "before", "before", "after", "interleaved", "interleaved", "none", "partial"}[rng.IntN(8)]
	ex.ReadBuf = []int{1, 7, 512, 4096, 32768, 100000}[rng.IntN(6)]
	ex.ClientReadBuf = []int{1, 7, 512, 4096, 32768, 100000}[rng.IntN(6)]

	// response
	ex.Status = c18Statuses[rng.IntN(len(c18Statuses))]
	ex.ExplicitWH = ex.Status != 200 || rng.IntN(2) == 0
	ex.DoubleWH = ex.ExplicitWH && rng.IntN(10) == 0
	ex.FlushAfterHeader = rng.IntN(5) == 0
	ex.LateHeader = rng.IntN(12) == 0
	for i := rng.IntN(3); i > 0 && rng.IntN(3) == 0; i-- {
		inf := c18Info{Code: []int{103, 103, 100, 102}[rng.IntN(4)]}
		if inf.Code == 103 {
			inf.Hdr = []c18KV{{"Link", []string{fmt.Sprintf("</style-%d.css>; rel=preload; as=style", i)}}}
		}
		ex.Info = append(ex.Info, inf)
	}
	used = map[string]bool{"Link": true}
	for i := rng.IntN(6); i > 0; i-- {
		switch rng.IntN(10) {
		case 0:
			add(&ex.RespHdr, "X-Resp-A", c18Value(rng, c18ValueLen(rng)))
		case 1:
			var vs []string
			for j := 2 + rng.IntN(3); j > 0; j-- {
				vs = append(vs, c18Value(rng, c18ValueLen(rng)))
			}
			add(&ex.RespHdr, "X-Resp-Multi", vs...)
		case 2:
			var vs []string
			for j := 1 + rng.IntN(3); j > 0; j-- {
				vs = append(vs, fmt.Sprintf("s%d=%d; Path=/; HttpOnly", j, rng.IntN(1000)))
			}
			add(&ex.RespHdr, "Set-Cookie", vs...)
		case 3:
			add(&ex.RespHdr, "Content-Type", []string{"text/plain; charset=utf-8", "application/json", "application/x-verif"}[rng.IntN(3)])
		case 4:
			add(&ex.RespHdr, "Cache-Control", "max-age=60", "public")
		case 5:
			add(&ex.RespHdr, "Location", "/elsewhere?x=1")
		case 6:
			add(&ex.RespHdr, "x-lower-resp", c18Value(rng, c18ValueLen(rng)))
		case 7:
			add(&ex.RespHdr, "X-Empty", "")
		case 8:
			add(&ex.RespHdr, "X-Long", c18Value(rng, 1000+rng.IntN(7000)))
		default:
			add(&ex.RespHdr, "Vary", "Accept-Encoding")
		}
	}
	ex.DateMode = []string{"", "", "", "", "set", "nil"}[rng.IntN(6)]
	ex.RespBody = c18BodySize(rng, big)
	ex.RespChunks = c18Chunks(rng)
	if rng.IntN(3) == 0 {
		ex.FlushEvery = 1 + rng.IntN(3)
	}
	ex.RespDeclared = rng.IntN(3) == 0
	if rng.IntN(5) == 0 {
		ex.Gzip = []string{"if-accepted", "if-accepted", "always"}[rng.IntN(3)]
	}
	if ex.noBodyStatus() {
		ex.Gzip = "" // no handler compresses a response that has no body
	}
	if rng.IntN(4) == 0 {
		ts := c18Trailers(rng)
		cut := rng.IntN(len(ts) + 1)
		ex.DeclTrailers, ex.PrefixTrailers = ts[:cut], ts[cut:]
		ex.DeclEarly = rng.IntN(4) == 0
	}
	switch mismatch {
	case 1: // request body shorter than declared
		ex.Method, ex.ReqBody, ex.ReqChunks, ex.ReqDeclared, ex.ReqTrailers = "POST", 1+rng.IntN(20000), c18Chunks(rng), true, nil
		ex.ReqCLDelta = 1 + rng.IntN(1+ex.ReqBody)
		ex.ReadMode = "before"
	case 2: // request body longer than declared
		ex.Method, ex.ReqBody, ex.ReqChunks, ex.ReqDeclared, ex.ReqTrailers = "PUT", 2+rng.IntN(20000), c18Chunks(rng), true, nil
		ex.ReqCLDelta = -(1 + rng.IntN(ex.ReqBody-1))
		ex.ReadMode = "before"
	case 3: // response body shorter than declared
		ex.Method, ex.Status, ex.ExplicitWH, ex.Gzip, ex.RespDeclared = "GET", 200, true, "", true
		ex.RespBody = rng.IntN(20000)
		ex.RespCLDelta = 1 + rng.IntN(1+ex.RespBody)
	case 4: // response body longer than declared
		ex.Method, ex.Status, ex.ExplicitWH, ex.Gzip, ex.RespDeclared = "GET", 200, true, "", true
		ex.RespBody = 2 + rng.IntN(20000)
		ex.RespCLDelta = -(1 + rng.IntN(ex.RespBody-1))
	}
	return ex
}

func (ex *c18Exchange) reqBytes() []byte {
	if ex.ReqBody <= 0 {
		return nil
	}
	return c18Bytes(uint64(ex.ID)*2+1, ex.ReqBody)
}

func (ex *c18Exchange) respPlain() []byte { return c18Bytes(uint64(ex.ID)*2+2, ex.RespBody) }

func c18Gzip(b []byte) []byte {
	var buf bytes.Buffer
	zw := gzip.NewWriter(&buf)
	zw.Write(b)
	zw.Close()
	return buf.Bytes()
}

// autoGzip: the transport adds Accept-Encoding: gzip by itself.
func (ex *c18Exchange) autoGzip(disableCompression bool) bool {
	if disableCompression || ex.Method == "HEAD" {
		return false
	}
	for _, kv := range ex.ReqHdr {
		ck := http.CanonicalHeaderKey(kv.K)
		if (ck == "Accept-Encoding" || ck == "Range") && len(kv.V) > 0 && kv.V[0] != "" {
			return false
		}
	}
	return true
}

// acceptsGzip: what the handler will find in Accept-Encoding (per the model).
func (ex *c18Exchange) acceptsGzip(disableCompression bool) bool {
	if ex.autoGzip(disableCompression) {
		return true
	}
	for _, kv := range ex.ReqHdr {
		if http.CanonicalHeaderKey(kv.K) == "Accept-Encoding" {
			return strings.Contains(strings.Join(kv.V, ","), "gzip")
		}
	}
	return false
}

func (ex *c18Exchange) gzipped(disableCompression bool) bool {
	return ex.Gzip == "always" || ex.Gzip == "if-accepted" && ex.acceptsGzip(disableCompression)
}

func (ex *c18Exchange) noBodyStatus() bool { return ex.Status == 204 || ex.Status == 304 }

func c18Canon(kvs []c18KV) http.Header {
	h := http.Header{}
	for _, kv := range kvs {
		ck := http.CanonicalHeaderKey(kv.K)
		h[ck] = append(h[ck], kv.V...)
	}
	return h
}

func c18CanonHeader(in http.Header) http.Header {
	h := http.Header{}
	keys := make([]string, 0, len(in))
	for k := range in {
		keys = append(keys, k)
	}
	sort.Strings(keys)
	for _, k := range keys {
		ck := http.CanonicalHeaderKey(k)
		if len(in[k]) == 0 {
			continue
		}
		h[ck] = append(h[ck], in[k]...)
	}
	return h
}

// c18DiffHeader returns "" if got == want (key sets and value lists), else a description.
func c18DiffHeader(got, want http.Header, ignore map[string]bool) string {
	var diffs []string
	for k, wv := range want {
		if ignore[k] {
			continue
		}
		gv, ok := got[k]
		if !ok {
			diffs = append(diffs, fmt.Sprintf("missing %s (want %q)", k, c18Trunc(wv)))
			continue
		}
		if len(gv) != len(wv) {
			diffs = append(diffs, fmt.Sprintf("%s: got %d value(s) %q, want %d %q", k, len(gv), c18Trunc(gv), len(wv), c18Trunc(wv)))
			continue
		}
		for i := range wv {
			if gv[i] != wv[i] {
				diffs = append(diffs, fmt.Sprintf("%s[%d]: got %q, want %q", k, i, c18Trunc(gv[i:i+1]), c18Trunc(wv[i:i+1])))
				break
			}
		}
	}
	for k, gv := range got {
		if ignore[k] {
			continue
		}
		if _, ok := want[k]; !ok {
			diffs = append(diffs, fmt.Sprintf("unexpected %s: %q", k, c18Trunc(gv)))
		}
	}
	sort.Strings(diffs)
	return strings.Join(diffs, "; ")
}

func c18Trunc(vs []string) []string {
	out := make([]string, len(vs))
	for i, v := range vs {
		if len(v) > 60 {
			v = v[:60] + fmt.Sprintf("…(%d)", len(v))
		}
		out[i] = v
	}
	return out
}

func c18DiffBytes(got, want []byte) string {
	if bytes.Equal(got, want) {
		return ""
	}
	n := min(len(got), len(want))
	i := 0
	for i < n && got[i] == want[i] {
		i++
	}
	return fmt.Sprintf("got %d bytes, want %d; first difference at offset %d", len(got), len(want), i)
}

// expected request fields at the handler
func (ex *c18Exchange) wantReqHeader(disableCompression bool) (http.Header, map[string]bool) {
	want := c18Canon(ex.ReqHdr)
	ignore := map[string]bool{"Content-Length": true, "Trailer": true}
	if c := want["Cookie"]; len(c) > 0 {
		want["Cookie"] = []string{strings.Join(c, "; ")}
	}
	if ua, ok := want["User-Agent"]; ok {
		if len(ua) == 0 || ua[0] == "" {
			delete(want, "User-Agent")
		} else {
			want["User-Agent"] = ua[:1]
		}
	} else {
		ignore["User-Agent"] = true
	}
	if ex.autoGzip(disableCompression) {
		want["Accept-Encoding"] = []string{"gzip"}
	}
	return want, ignore
}

func (ex *c18Exchange) wantTrailers(kvs []c18KV) http.Header {
	h := http.Header{}
	for _, kv := range kvs {
		if len(kv.V) > 0 {
			h[http.CanonicalHeaderKey(kv.K)] = kv.V
		}
	}
	return h
}

// c18DiffTrailers: every expected trailer must be there with its values; no other key may carry values.
func c18DiffTrailers(got, want http.Header) string {
	g := http.Header{}
	for k, v := range got {
		if len(v) > 0 {
			g[k] = v
		}
	}
	return c18DiffHeader(g, want, nil)
}

func c18SizeBucket(n int) string {
	switch {
	case n < 0:
		return "nil"
	case n == 0:
		return "0"
	case n < 4096:
		return "<4k"
	case n < 65536:
		return "<64k"
	default:
		return "big"
	}
}

func (ex *c18Exchange) fingerprint(conc int, client string, faults bool, logger bool) string {
	tr := ""
	if len(ex.ReqTrailers) > 0 {
		tr += "q"
	}
	if len(ex.DeclTrailers) > 0 {
		tr += "d"
	}
	if len(ex.PrefixTrailers) > 0 {
		tr += "p"
	}
	cb := "1"
	if conc > 1 {
		cb = "n"
	}
	if conc > 8 {
		cb = "N"
	}
	mc := "other"
	switch ex.Method {
	case "GET", "HEAD":
		mc = ex.Method
	case "POST", "PUT", "PATCH", "QUERY", "PROPFIND":
		mc = "body-method"
	}
	sc := fmt.Sprintf("%dxx", ex.Status/100)
	if ex.noBodyStatus() {
		sc = "bodyless"
	}
	return fmt.Sprintf("%s|rq%s,%v,%d|%s|%s,i%d|rs%s,%v,%d,f%v|gz%s|tr%s|c%s|%s|f%v|l%v", mc, c18SizeBucket(ex.ReqBody), ex.ReqDeclared, c18Sign(ex.ReqCLDelta), ex.ReadMode,
		sc, min(len(ex.Info), 1), c18SizeBucket(ex.RespBody), ex.RespDeclared, c18Sign(ex.RespCLDelta), ex.FlushEvery > 0 || ex.FlushAfterHeader, ex.Gzip, tr, cb, client, faults, logger)
}

func c18Sign(n int) int {
	switch {
	case n < 0:
		return -1
	case n > 0:
		return 1
	}
	return 0
}
