package http3_test

// C18 — scripted HTTP/3 *server* on a raw QUIC connection against the real http3.Transport.

import (
	"bytes"
	"context"
	"fmt"
	"io"
	"math/rand/v2"
	"net/http"
	"net/http/httptrace"
	"net/textproto"
	"strconv"
	"strings"
	"sync"
	"time"

	quic "github.com/refraction-networking/uquic"
	"github.com/refraction-networking/uquic/http3"
	"github.com/refraction-networking/uquic/internal/verif/quicworld"
	"github.com/refraction-networking/uquic/internal/verif/simworld"
	"github.com/refraction-networking/uquic/internal/verif/wiretap"
)

type c18CliObs struct {
	Err     string
	Status  int
	Header  http.Header
	Info    int
	Body    []byte
	ReadErr string
	Trailer http.Header
}

// c18RespScript answers request number idx on str; req is what the real client sent (nil if unreadable).
type c18RespScript func(idx int, str *quic.Stream, req *c18Message, reqErr error)

type c18CliWorld struct {
	w      *quicworld.World
	tr     *http3.Transport
	dialer *c18Dialer
	ctx    context.Context
	cancel context.CancelFunc

	mu       sync.Mutex
	sconn    *quic.Conn
	ctrl     *quic.SendStream
	ready    chan struct{} // closed once sconn is set (or accept failed)
	script   c18RespScript
	onConn   func(*quic.Conn)
	wg       sync.WaitGroup
	reqs     []*c18Message
	conns    []*quic.Conn
	nstreams int
	trailer  bool
	n        int
}

type c18CliOpt struct {
	NoControl              bool
	MaxResponseHeaderBytes int
	IdleTimeout            time.Duration
	OnConn                 func(*quic.Conn) // runs right after the control stream was opened
	NoReadRequest          bool             // the script reads the request stream itself
}

func c18NewCliWorld(pc *c18PeerCase, o c18CliOpt, script c18RespScript) (*c18CliWorld, error) {
	opt, _ := c18WorldOptions("plain", 10, simworld.Schedule{}, false)
	if o.IdleTimeout > 0 {
		opt.ServerConf.MaxIdleTimeout = o.IdleTimeout
		opt.ClientConf.MaxIdleTimeout = o.IdleTimeout
		opt.ClientConf.KeepAlivePeriod = 0
	}
	w, err := quicworld.New(opt)
	if err != nil {
		return nil, err
	}
	cw := &c18CliWorld{w: w, script: script, ready: make(chan struct{}), trailer: pc.Trailers, onConn: o.OnConn}
	cw.ctx, cw.cancel = context.WithCancel(context.Background())
	cw.dialer = &c18Dialer{w: w}
	cw.tr = &http3.Transport{Logger: c18Logger(pc.Logger), MaxResponseHeaderBytes: o.MaxResponseHeaderBytes, Dial: cw.dialer.dial}
	cw.wg.Add(1)
	go func() { // the Transport dials again after a failed request: serve every connection
		defer cw.wg.Done()
		for ci := 0; ; ci++ {
			conn, err := w.Accept(cw.ctx)
			if err != nil {
				if ci == 0 {
					close(cw.ready)
				}
				return
			}
			cw.mu.Lock()
			cw.conns = append(cw.conns, conn)
			if ci == 0 {
				cw.sconn = conn
			}
			cw.mu.Unlock()
			if !o.NoControl || ci > 0 {
				if us, err := conn.OpenUniStream(); err == nil {
					us.Write(append([]byte{c18StreamControl}, c18SettingsFrame(0x6, 1<<20, 0x8, 1, 0x1f*5+0x21, 9)...))
					if ci == 0 {
						cw.mu.Lock()
						cw.ctrl = us
						cw.mu.Unlock()
					}
				}
			}
			if ci == 0 {
				close(cw.ready)
				if cw.onConn != nil {
					cw.onConn(conn)
				}
			}
			cw.wg.Add(1)
			go func() {
				defer cw.wg.Done()
				cw.serveConn(conn, o)
			}()
		}
	}()
	return cw, nil
}

func (cw *c18CliWorld) serveConn(conn *quic.Conn, o c18CliOpt) {
	for {
		str, err := conn.AcceptStream(cw.ctx)
		if err != nil {
			return
		}
		cw.mu.Lock()
		idx := cw.nstreams
		cw.nstreams++
		cw.mu.Unlock()
		cw.wg.Add(1)
		go func() {
			defer cw.wg.Done()
			var req *c18Message
			var rerr error
			if !o.NoReadRequest {
				str.SetReadDeadline(time.Now().Add(20 * time.Second))
				var raw []byte
				raw, rerr = io.ReadAll(str)
				if rerr == nil {
					var fr []c18ParsedFrame
					if fr, rerr = c18ParseFrames(raw); rerr == nil {
						req, rerr = c18Assemble(fr, false)
					}
				}
			}
			cw.mu.Lock()
			for len(cw.reqs) <= idx {
				cw.reqs = append(cw.reqs, nil)
			}
			cw.reqs[idx] = req
			cw.mu.Unlock()
			cw.script(idx, str, req, rerr)
		}()
	}
}

func (cw *c18CliWorld) server() *quic.Conn {
	select {
	case <-cw.ready:
	case <-time.After(30 * time.Second):
	}
	cw.mu.Lock()
	defer cw.mu.Unlock()
	return cw.sconn
}

func (cw *c18CliWorld) close() []string {
	cw.tr.Close()
	cw.dialer.closeAll()
	cw.cancel()
	cw.server()
	cw.mu.Lock()
	conns := cw.conns
	cw.mu.Unlock()
	for _, c := range conns {
		c.CloseWithError(quic.ApplicationErrorCode(c18ErrNoError), "")
	}
	cw.wg.Wait()
	cw.w.Close()
	time.Sleep(3 * time.Second)
	return quicworld.BubbleGoroutines()
}

// do issues one request with the real client and reads the whole response.
func (cw *c18CliWorld) do(bodyLen int, timeout time.Duration) *c18CliObs {
	o := &c18CliObs{}
	cw.n++
	ctx, cancel := context.WithTimeout(cw.ctx, timeout)
	defer cancel()
	var mu sync.Mutex
	ctx = httptrace.WithClientTrace(ctx, &httptrace.ClientTrace{Got1xxResponse: func(int, textproto.MIMEHeader) error { mu.Lock(); o.Info++; mu.Unlock(); return nil }})
	method := "GET"
	if bodyLen >= 0 {
		method = "POST"
	}
	req, err := http.NewRequestWithContext(ctx, method, fmt.Sprintf("%s/cli/%d", c18Origin, cw.n), nil)
	if err != nil {
		o.Err = err.Error()
		return o
	}
	if bodyLen >= 0 {
		req.Body = &c18BodyReader{data: c18Bytes(uint64(cw.n), bodyLen), chunks: []int{700}}
		if cw.trailer {
			req.Trailer = http.Header{"X-Req-Trailer": {"v"}}
		} else {
			req.ContentLength = int64(bodyLen)
		}
	}
	resp, err := cw.tr.RoundTrip(req)
	if err != nil {
		o.Err = err.Error()
		return o
	}
	o.Status, o.Header = resp.StatusCode, resp.Header.Clone()
	buf := make([]byte, 900)
	for zeroReads := 0; ; {
		n, err := resp.Body.Read(buf)
		o.Body = append(o.Body, buf[:n]...)
		if err != nil {
			if err != io.EOF {
				o.ReadErr = err.Error()
			}
			break
		}
		if n > 0 {
			zeroReads = 0
		} else if zeroReads++; zeroReads > c18MaxZeroReads {
			o.ReadErr = c18Livelock
			break
		}
	}
	o.Trailer = resp.Trailer.Clone()
	resp.Body.Close()
	return o
}

func c18RespHead(extra ...c18Field) []c18Field {
	return append([]c18Field{{":status", "200"}, {"x-verif", "peer"}, {"content-type", "application/x-verif"}}, extra...)
}

func c18WritePieces(str *quic.Stream, pieces [][]byte, gap time.Duration) error {
	for i, p := range pieces {
		if _, err := str.Write(p); err != nil {
			return err
		}
		if gap > 0 && i < len(pieces)-1 {
			time.Sleep(gap)
		}
	}
	return nil
}

func c18CheckCleanResp(r *c18PeerRun, what string, m *c18Msg, info int, o *c18CliObs) []c18Viol {
	var vs []c18Viol
	if o.Err != "" {
		return append(vs, r.viol("client|scripted|"+what+"|roundtrip-error", "%s; parts %v", o.Err, m.Parts))
	}
	if o.Status != 200 {
		vs = append(vs, r.viol("client|scripted|"+what+"|status", "%d", o.Status))
	}
	if o.Header.Get("X-Verif") != "peer" {
		vs = append(vs, r.viol("client|scripted|"+what+"|header", "%v", o.Header))
	}
	if o.Info != info {
		vs = append(vs, r.viol("client|scripted|"+what+"|1xx", "client saw %d informational responses, %d were sent", o.Info, info))
	}
	if o.ReadErr != "" {
		return append(vs, r.viol("client|scripted|"+what+"|body-read-error", "%s after %d of %d bytes; parts %v", o.ReadErr, len(o.Body), len(m.Body), m.Parts))
	}
	if d := c18DiffBytes(o.Body, m.Body); d != "" {
		vs = append(vs, r.viol("client|scripted|"+what+"|body", "%s; parts %v", d, m.Parts))
	}
	wantT := http.Header{}
	for _, f := range m.Trailers {
		wantT.Add(f.Name, f.Value)
	}
	if d := c18DiffTrailers(o.Trailer, wantT); d != "" {
		vs = append(vs, r.viol("client|scripted|"+what+"|trailers", "%s", d))
	}
	return vs
}

func (cw *c18CliWorld) checkRequest(r *c18PeerRun, idx int, bodyLen int) []c18Viol {
	cw.mu.Lock()
	defer cw.mu.Unlock()
	if idx >= len(cw.reqs) || cw.reqs[idx] == nil {
		return nil
	}
	req := cw.reqs[idx]
	var vs []c18Viol
	if d := c18DiffBytes(req.Body, c18Bytes(uint64(idx+1), max(bodyLen, 0))); d != "" && bodyLen >= 0 {
		vs = append(vs, r.viol("client|scripted|request-body-on-the-wire", "%s", d))
	}
	if cw.trailer && bodyLen >= 0 && c18FieldValue(req.Trailers, "x-req-trailer") != "v" {
		vs = append(vs, r.viol("client|scripted|request-trailers-on-the-wire", "%v", req.Trailers))
	}
	return vs
}

func c18RunCliCase(r *c18PeerRun) {
	pc := r.pc
	rng := rand.New(rand.NewPCG(pc.Seed, 0xc11))
	harness := func(err error) { r.eval("", r.viol("harness|peer-world", "%v", err)) }
	leak := func(lk []string) {
		if len(lk) > 0 {
			r.eval("leak", r.viol("leak|goroutines-alive-after-close", "%d goroutine(s) alive 3 s (virtual) after Transport.Close and World.Close (%s):\n%s", len(lk), pc.Name, lk[0]))
		}
	}
	reqBody := -1
	if pc.Trailers || pc.C%2 == 1 {
		reqBody = 1500
	}
	var mu sync.Mutex
	switch pc.Kind {
	case "splits", "fuzz":
		type plan struct {
			m    *c18Msg
			cuts []int
			gap  time.Duration
			info int
		}
		plans := map[int]*plan{}
		cw, err := c18NewCliWorld(pc, c18CliOpt{}, func(idx int, str *quic.Stream, _ *c18Message, _ error) {
			mu.Lock()
			p := plans[idx]
			mu.Unlock()
			if p == nil {
				str.CancelWrite(quic.StreamErrorCode(c18ErrInternal))
				return
			}
			c18WritePieces(str, c18Cuts(p.m.Bytes, p.cuts...), p.gap)
			str.Close()
		})
		if err != nil {
			harness(err)
			return
		}
		n := pc.B
		if pc.Kind == "fuzz" {
			n = pc.A
		}
		for i := 0; i < n; i++ {
			p := &plan{}
			if pc.Kind == "splits" {
				p.info = 1
				p.m = c18BuildMsg(rand.New(rand.NewPCG(uint64(pc.C), 1)), c18RespHead(c18Field{"content-length", "600"}), c18MsgOpt{Unknown: true, SmallUnk: true, Trailers: true, BodyLen: 600, Frames: 3, Info: 1}, 12)
				pos := pc.A + i
				if pos >= len(p.m.Bytes) {
					break
				}
				p.cuts, p.gap = []int{pos}, time.Millisecond
			} else {
				bl := []int{0, 1, 50, 1200, 5000, 20000}[rng.IntN(6)]
				head := c18RespHead()
				if rng.IntN(2) == 0 {
					head = append(head, c18Field{"content-length", strconv.Itoa(bl)})
				}
				p.info = rng.IntN(3)
				frames := rng.IntN(5)
				if frames == 0 {
					if c18FieldValue(head, "content-length") != "" {
						frames = 1
					} else {
						bl = 0
					}
				}
				p.m = c18BuildMsg(rng, head, c18MsgOpt{Unknown: true, Trailers: rng.IntN(2) == 0, BodyLen: bl, Frames: frames, Info: p.info}, uint64(i)+pc.Seed)
				for j := rng.IntN(4); j > 0; j-- {
					p.cuts = append(p.cuts, 1+rng.IntN(len(p.m.Bytes)))
				}
				sortInts(p.cuts)
				p.gap = time.Duration(rng.IntN(3)) * time.Millisecond
			}
			mu.Lock()
			plans[i] = p
			mu.Unlock()
			o := cw.do(reqBody, 30*time.Second)
			what := "split-response"
			fp := fmt.Sprintf("splits/%d", min(pc.A+i, 400))
			if pc.Kind == "fuzz" {
				what = "unknown-frames-and-splits"
				fp = fmt.Sprintf("fuzz/u%d/c%d/%s/i%d", min(p.m.Unknown, 3), len(p.cuts), c18SizeBucket(len(p.m.Body)), p.info)
				r.count("peer_unknown_frames_sent_client", int64(p.m.Unknown))
			} else {
				r.count("peer_split_positions_client", 1)
			}
			vs := c18CheckCleanResp(r, what, p.m, p.info, o)
			vs = append(vs, cw.checkRequest(r, i, reqBody)...)
			r.eval(fp, vs...)
		}
		leak(cw.close())

	case "unknown-uni":
		m := c18BuildMsg(rng, c18RespHead(), c18MsgOpt{BodyLen: 100, Frames: 1, Trailers: true}, 4)
		cw, err := c18NewCliWorld(pc, c18CliOpt{OnConn: func(conn *quic.Conn) {
			for i := 0; i < 1+pc.A; i++ {
				us, err := conn.OpenUniStream()
				if err != nil {
					return
				}
				t := []uint64{0x21, 0x1f*9 + 0x21, 0x4, 0x54, 0x1f*0x1234567 + 0x21, 0x3ffffffffffffffe}[rng.IntN(6)]
				us.Write(append(c18AppendVarint(nil, t), c18Bytes(t, []int{0, 1, 100, 3000}[rng.IntN(4)])...))
				switch rng.IntN(3) {
				case 0:
					us.Close()
				case 1:
					us.CancelWrite(quic.StreamErrorCode(c18ErrNoError))
				}
			}
		}}, func(idx int, str *quic.Stream, _ *c18Message, _ error) {
			str.Write(m.Bytes)
			str.Close()
		})
		if err != nil {
			harness(err)
			return
		}
		o := cw.do(reqBody, 30*time.Second)
		vs := c18CheckCleanResp(r, "unknown-stream-type", m, 0, o)
		time.Sleep(100 * time.Millisecond)
		if sc := cw.server(); sc != nil {
			if code, cause := c18ConnClosed(sc, 300*time.Millisecond); code != -2 {
				vs = append(vs, r.viol("client|unknown-stream-type-not-ignored", "connection ended: %s", cause))
			}
		}
		r.count("peer_unknown_uni_streams_client", int64(1+pc.A))
		r.eval("unknown-uni", vs...)
		o = cw.do(reqBody, 30*time.Second)
		r.eval("unknown-uni/follow-up", c18CheckCleanResp(r, "unknown-stream-type-follow-up", m, 0, o)...)
		leak(cw.close())

	case "forbidden":
		list := c18ForbiddenList(true)
		fb := &list[pc.A%len(list)]
		bad := fb.Build(rng)
		okMsg := c18BuildMsg(rng, c18RespHead(), c18MsgOpt{BodyLen: 50, Frames: 1}, 6)
		cw, err := c18NewCliWorld(pc, c18CliOpt{NoControl: fb.Where == "control-first", OnConn: func(conn *quic.Conn) {
			if fb.Where == "request" || fb.Where == "control-after" {
				return
			}
			us, err := conn.OpenUniStream()
			if err != nil {
				return
			}
			b := bad
			if fb.Where == "control-first" {
				b = append([]byte{c18StreamControl}, b...)
			}
			if fb.Pos == 2 { // the first stream of this type is legal
				us.Write(b)
				if us, err = conn.OpenUniStream(); err != nil {
					return
				}
			}
			c18ForbiddenUni(conn, us, b, fb, pc.B)
		}}, func(idx int, str *quic.Stream, _ *c18Message, _ error) {
			msg := okMsg.Bytes
			if fb.Where == "request" {
				msg = c18ForbiddenMsg(rng, c18RespHead(), fb.Pos, bad)
			}
			var cuts []int
			if pc.B > 0 && len(msg) > 2 {
				cuts = append(cuts, 1+pc.B%(len(msg)-1))
			}
			c18WritePieces(str, c18Cuts(msg, cuts...), time.Millisecond)
			str.Close()
		})
		if err != nil {
			harness(err)
			return
		}
		o := cw.do(reqBody, 20*time.Second)
		sc := cw.server()
		if sc == nil {
			harness(fmt.Errorf("no connection accepted: %s", o.Err))
			leak(cw.close())
			return
		}
		if fb.Where == "control-after" {
			time.Sleep(50 * time.Millisecond) // SETTINGS must have been delivered: a reset may discard undelivered data
			cw.mu.Lock()
			ctrl := cw.ctrl
			cw.mu.Unlock()
			c18ForbiddenUni(sc, ctrl, bad, fb, pc.B)
		}
		code, cause := c18ConnClosed(sc, 2*time.Second)
		c18CheckForbidden(r, "client", fb, code, cause)
		leak(cw.close())

	case "cl-mismatch":
		type variant struct {
			name     string
			declared int
			frames   []int
		}
		vars := []variant{
			{"short/one-frame", 10, []int{4}}, {"short/no-data", 10, nil}, {"short/off-by-one", 5000, []int{4999}}, {"short/two-frames", 10, []int{4, 5}}, {"short/empty-frame", 3, []int{0}},
			{"long/one-frame", 10, []int{11}}, {"long/extra-frame", 10, []int{10, 1}}, {"long/after-empty-frame", 10, []int{10, 0, 3}}, {"long/declared-zero", 0, []int{1}}, {"long/much", 10, []int{5000}},
			{"exact/one", 10, []int{10}}, {"exact/three", 10, []int{3, 0, 7}}, {"exact/zero", 0, nil}, {"exact/zero-empty-frame", 0, []int{0}},
		}
		vr := vars[pc.A%len(vars)]
		msg := c18HeadersFrame(c18RespHead(c18Field{"content-length", strconv.Itoa(vr.declared)}))
		total := 0
		var body []byte
		for _, n := range vr.frames {
			b := c18Bytes(uint64(total), n)
			msg = append(msg, c18Frame(c18FrameData, b)...)
			body = append(body, b...)
			total += n
		}
		okMsg := c18BuildMsg(rng, c18RespHead(), c18MsgOpt{BodyLen: 50, Frames: 1, Trailers: true}, 6)
		cw, err := c18NewCliWorld(pc, c18CliOpt{}, func(idx int, str *quic.Stream, _ *c18Message, _ error) {
			if idx > 0 {
				str.Write(okMsg.Bytes)
				str.Close()
				return
			}
			var cuts []int
			if pc.B > 0 {
				cuts = append(cuts, 1+pc.B%(len(msg)-1))
			}
			c18WritePieces(str, c18Cuts(msg, cuts...), time.Millisecond)
			str.Close()
		})
		if err != nil {
			harness(err)
			return
		}
		o := cw.do(reqBody, 30*time.Second)
		kind, _, _ := strings.Cut(vr.name, "/")
		var vs []c18Viol
		switch {
		case kind == "exact":
			if o.Err != "" || o.ReadErr != "" || !bytes.Equal(o.Body, body) {
				vs = append(vs, r.viol("client|scripted|exact-content-length-rejected", "%s: err %q read error %q, %d bytes", vr.name, o.Err, o.ReadErr, len(o.Body)))
			}
		case o.Err != "":
		case o.ReadErr == c18Livelock:
			vs = append(vs, r.viol("client|response-body-read-never-ends", "%s: content-length %d, DATA frames %v: after %d bytes Body.Read keeps returning (0, nil)", vr.name, vr.declared, vr.frames, len(o.Body)))
		case o.ReadErr == "":
			vs = append(vs, r.viol("client|content-length|"+kind+"-response-body-read-as-clean-EOF", "%s: content-length %d, DATA frames %v; the client read %d bytes and then io.EOF without an error", vr.name, vr.declared, vr.frames, len(o.Body)))
		case len(o.Body) > vr.declared:
			vs = append(vs, r.viol("client|content-length|response-body-extended", "%s: the client was given %d bytes, declared %d", vr.name, len(o.Body), vr.declared))
		}
		r.eval("cl-mismatch/"+vr.name, vs...)
		r.count("peer_cl_mismatch_client", 1)
		o = cw.do(reqBody, 30*time.Second)
		r.eval("cl-mismatch/follow-up", c18CheckCleanResp(r, "cl-mismatch-follow-up", okMsg, 0, o)...)
		leak(cw.close())

	case "oversize":
		okMsg := c18BuildMsg(rng, c18RespHead(), c18MsgOpt{BodyLen: 50, Frames: 1, Trailers: true}, 6)
		cw, err := c18NewCliWorld(pc, c18CliOpt{MaxResponseHeaderBytes: 4096}, func(idx int, str *quic.Stream, _ *c18Message, _ error) {
			if idx > 0 {
				str.Write(okMsg.Bytes)
				str.Close()
				return
			}
			head := c18RespHead(c18Field{"x-big", strings.Repeat("v", 6000)})
			if pc.A%2 == 1 {
				head = c18RespHead()
				for i := 0; i < 200; i++ {
					head = append(head, c18Field{"x-f" + strconv.Itoa(i), "1"})
				}
			}
			str.Write(c18HeadersFrame(head))
			str.Write(c18Frame(c18FrameData, []byte("body")))
			str.Close()
		})
		if err != nil {
			harness(err)
			return
		}
		o := cw.do(reqBody, 30*time.Second)
		var vs []c18Viol
		if o.Err == "" {
			vs = append(vs, r.viol("client|oversize-field-section-accepted", "MaxResponseHeaderBytes 4096; RoundTrip returned status %d", o.Status))
		}
		r.eval(fmt.Sprintf("oversize/%d", pc.A%2), vs...)
		o = cw.do(reqBody, 30*time.Second)
		r.eval("oversize/follow-up", c18CheckCleanResp(r, "oversize-follow-up", okMsg, 0, o)...)
		leak(cw.close())

	case "reset-at":
		actions := []string{"reset", "stop", "reset+stop", "close-conn", "close-conn-error", "blackhole", "fin-early"}
		act := actions[pc.B%len(actions)]
		o := c18CliOpt{NoReadRequest: act == "stop" || act == "reset+stop"}
		if act == "blackhole" {
			o.IdleTimeout = 5 * time.Second
		}
		m := c18BuildMsg(rand.New(rand.NewPCG(uint64(pc.C), 2)), c18RespHead(), c18MsgOpt{Unknown: true, SmallUnk: true, Trailers: true, BodyLen: 3000, Frames: 2, Info: 1}, 22)
		okMsg := c18BuildMsg(rng, c18RespHead(), c18MsgOpt{BodyLen: 50, Frames: 1, Trailers: true}, 6)
		var cutsAt []int
		for i, b := range m.Bounds {
			cutsAt = append(cutsAt, b)
			if i+1 < len(m.Bounds) {
				cutsAt = append(cutsAt, b+1, (b+m.Bounds[i+1])/2)
			}
		}
		cut := cutsAt[pc.A%len(cutsAt)]
		complete := cut >= len(m.Bytes)
		var cw *c18CliWorld
		cw, err := c18NewCliWorld(pc, o, func(idx int, str *quic.Stream, _ *c18Message, _ error) {
			if idx > 0 {
				str.Write(okMsg.Bytes)
				str.Close()
				return
			}
			str.Write(m.Bytes[:cut])
			time.Sleep(time.Duration(pc.C%3) * 5 * time.Millisecond)
			code := quic.StreamErrorCode(c18ErrInternal)
			switch act {
			case "reset":
				str.CancelWrite(code)
			case "stop":
				str.CancelRead(quic.StreamErrorCode(c18ErrNoError))
				str.Write(m.Bytes[cut:])
				str.Close()
			case "reset+stop":
				str.CancelRead(code)
				str.CancelWrite(code)
			case "fin-early":
				str.Close()
			case "close-conn":
				cw.server().CloseWithError(quic.ApplicationErrorCode(c18ErrNoError), "")
			case "close-conn-error":
				cw.server().CloseWithError(quic.ApplicationErrorCode(c18ErrInternal), "bye")
			case "blackhole":
				cw.w.Router.SetBlackhole(wiretap.C2S, true)
				cw.w.Router.SetBlackhole(wiretap.S2C, true)
			}
		})
		if err != nil {
			harness(err)
			return
		}
		body := reqBody
		if o.NoReadRequest {
			body = 200000 // the request body is still being sent when the server refuses it
		}
		ob := cw.do(body, 40*time.Second)
		var vs []c18Viol
		if act == "stop" {
			complete = true
			vs = append(vs, c18CheckCleanResp(r, "response-after-STOP_SENDING", m, 1, ob)...)
		}
		if !complete && act != "fin-early" && ob.Err == "" && ob.ReadErr == "" {
			vs = append(vs, r.viol("client|aborted-response-read-as-complete", "response cut at byte %d of %d then %s; the client read status %d, %d body bytes and a clean io.EOF", cut, len(m.Bytes), act, ob.Status, len(ob.Body)))
		}
		if len(ob.Body) > 0 && !bytes.HasPrefix(m.Body, ob.Body) {
			vs = append(vs, r.viol("client|scripted|aborted-response-body-corrupt", "the %d bytes the client read are not a prefix of the body", len(ob.Body)))
		}
		r.eval(fmt.Sprintf("reset-at/%s/%s", act, m.partAt(cut)), vs...)
		r.count("peer_aborts_client", 1)
		if act == "reset" || act == "stop" || act == "reset+stop" || act == "fin-early" {
			ob = cw.do(reqBody, 30*time.Second)
			r.eval("reset-at/follow-up", c18CheckCleanResp(r, "reset-at-follow-up", okMsg, 0, ob)...)
		}
		leak(cw.close())

	default:
		harness(fmt.Errorf("unknown kind %q", pc.Kind))
	}
}

// c18ForbiddenUni performs a forbidden action on a unidirectional stream of the scripted server.
func c18ForbiddenUni(conn *quic.Conn, us *quic.SendStream, b []byte, fb *c18Forbidden, cut int) {
	if us == nil {
		return
	}
	for _, p := range c18Cuts(b, cut) {
		if len(p) > 0 {
			us.Write(p)
			time.Sleep(time.Millisecond)
		}
	}
	switch fb.End {
	case "fin":
		us.Close()
	case "reset":
		us.CancelWrite(quic.StreamErrorCode(c18ErrNoError))
	}
}
