package http3_test

// C18 — child-process machinery for the "no peer behaviour makes client or server panic" part.
// A panic in any goroutine of the real endpoint kills the process, so hostile-peer cases run in a
// child (this same test binary, -test.run ^TestVerifC18Child$) in small batches.  The child logs
// "start" before and "res" after every case; the parent turns a crash into a violation whose
// signature names the panicking function of the repository (first non-test frame of the stack) and
// restarts the child behind the crashed case.

import (
	"bufio"
	"bytes"
	"context"
	"encoding/json"
	"fmt"
	"os"
	"os/exec"
	"path/filepath"
	"regexp"
	"strings"
	"testing"
	"testing/synctest"
	"time"

	"github.com/refraction-networking/uquic/internal/verif/evlog"
)

type c18PeerCase struct {
	Idx      int    `json:"idx"`
	Name     string `json:"name"`
	Target   string `json:"target"` // server: scripted client against the real server; client: scripted server against the real client; both: real against real with aborts
	Kind     string `json:"kind"`
	Logger   bool   `json:"logger"`
	Trailers bool   `json:"trailers"` // the real endpoint's application uses trailers
	A        int    `json:"a"`
	B        int    `json:"b"`
	C        int    `json:"c"`
	Seed     uint64 `json:"seed"`
}

type c18PeerEval struct {
	FP    string    `json:"fp"`
	Viols []c18Viol `json:"viols,omitempty"`
}

type c18ChildLine struct {
	T      string           `json:"t"` // start | res
	Idx    int              `json:"idx"`
	Evals  []c18PeerEval    `json:"evals,omitempty"`
	Counts map[string]int64 `json:"counts,omitempty"`
}

// c18PeerRun is what a case function fills in.
type c18PeerRun struct {
	pc     *c18PeerCase
	evals  []c18PeerEval
	counts map[string]int64
}

func (r *c18PeerRun) eval(fp string, viols ...c18Viol) {
	r.evals = append(r.evals, c18PeerEval{fp, viols})
}

func (r *c18PeerRun) count(k string, n int64) { r.counts[k] += n }

func (r *c18PeerRun) viol(sig, format string, a ...any) c18Viol {
	return c18Viol{"C18|" + sig, fmt.Sprintf(format, a...)}
}

// TestVerifC18Child runs the batch given in $VERIF_C18_CHILD_IN; it is a no-op otherwise.
func TestVerifC18Child(t *testing.T) {
	in, out := os.Getenv("VERIF_C18_CHILD_IN"), os.Getenv("VERIF_C18_CHILD_OUT")
	if in == "" || out == "" {
		t.Skip("child of TestVerifC18Peer only")
	}
	raw, err := os.ReadFile(in)
	if err != nil {
		t.Fatal(err)
	}
	var cases []*c18PeerCase
	if err := json.Unmarshal(raw, &cases); err != nil {
		t.Fatal(err)
	}
	f, err := os.OpenFile(out, os.O_CREATE|os.O_WRONLY|os.O_APPEND, 0o644)
	if err != nil {
		t.Fatal(err)
	}
	defer f.Close()
	emit := func(l c18ChildLine) {
		b, _ := json.Marshal(l)
		f.Write(append(b, '\n'))
	}
	for _, pc := range cases {
		emit(c18ChildLine{T: "start", Idx: pc.Idx})
		run := &c18PeerRun{pc: pc, counts: map[string]int64{}}
		synctest.Test(t, func(t *testing.T) { c18RunPeerCase(run) })
		emit(c18ChildLine{T: "res", Idx: pc.Idx, Evals: run.evals, Counts: run.counts})
	}
}

var (
	c18ReHex = regexp.MustCompile(`0x[0-9a-f]+`)
)

// c18ClassifyPanic derives a stable signature tail from a Go crash report (or a runtime.Stack dump
// taken in a recover): "<reason>|<function of the repository that panicked>".
func c18ClassifyPanic(out string) (tail string, head string) {
	lines := strings.Split(out, "\n")
	start := -1
	for i, ln := range lines {
		if strings.HasPrefix(ln, "panic: ") || strings.HasPrefix(ln, "fatal error: ") {
			start, head = i, ln
			break
		}
	}
	if start < 0 {
		start, head = 0, lines[0]
	}
	head = c18ReHex.ReplaceAllString(head, "0x?")
	if strings.Contains(head, "deadlock: main bubble goroutine has exited") {
		return "leak|goroutines-blocked-forever-after-shutdown", head
	}
	reason := "other"
	switch {
	case strings.Contains(head, "nil pointer dereference"):
		reason = "nil-pointer"
	case strings.Contains(head, "index out of range"), strings.Contains(head, "slice bounds out of range"):
		reason = "out-of-range"
	case strings.Contains(head, "close of closed channel"), strings.Contains(head, "send on closed channel"):
		reason = "closed-channel"
	case strings.Contains(head, "negative WaitGroup counter"), strings.Contains(head, "WaitGroup"):
		reason = "waitgroup"
	case strings.Contains(head, "concurrent map"):
		reason = "concurrent-map"
	}
	// the first goroutine block after the head is the panicking one
	fn, sawSlog := "unknown", false
	inStack := false
	for i := start; i < len(lines); i++ {
		ln := lines[i]
		if strings.HasPrefix(ln, "goroutine ") {
			if inStack {
				break
			}
			inStack = true
			continue
		}
		if !inStack || strings.HasPrefix(ln, "\t") || ln == "" {
			if inStack && ln == "" {
				break
			}
			continue
		}
		name := ln
		if j := strings.LastIndex(name, "("); j > 0 {
			name = name[:j]
		}
		file := ""
		if i+1 < len(lines) {
			file = lines[i+1]
		}
		if strings.HasPrefix(name, "log/slog.(*Logger)") {
			sawSlog = true
		}
		if strings.HasPrefix(name, "github.com/refraction-networking/uquic/") && !strings.Contains(file, "zz_verif") && !strings.Contains(name, "/internal/verif") && !strings.Contains(file, "_test.go") {
			fn = strings.TrimPrefix(name, "github.com/refraction-networking/uquic/")
			break
		}
	}
	if reason == "nil-pointer" && sawSlog {
		reason = "nil-logger"
	}
	return "panic|" + reason + "|" + fn, head
}

// c18RunBatch runs the cases of one batch in child processes and reports into c.
func c18RunBatch(l *evlog.Log, c *evlog.Case, cases []*c18PeerCase) {
	dir, err := os.MkdirTemp("", "verif-c18-")
	if err != nil {
		c.Inconclusive("mkdtemp: " + err.Error())
		return
	}
	defer os.RemoveAll(dir)
	byIdx := map[int]*c18PeerCase{}
	for _, pc := range cases {
		byIdx[pc.Idx] = pc
	}
	remaining := cases
	for attempt := 0; len(remaining) > 0; attempt++ {
		in, out := filepath.Join(dir, fmt.Sprintf("in%d.json", attempt)), filepath.Join(dir, fmt.Sprintf("out%d.jsonl", attempt))
		b, _ := json.Marshal(remaining)
		if err := os.WriteFile(in, b, 0o644); err != nil {
			c.Inconclusive("write batch: " + err.Error())
			return
		}
		ctx, cancel := context.WithTimeout(context.Background(), 3*time.Minute)
		cmd := exec.CommandContext(ctx, os.Args[0], "-test.run", "^TestVerifC18Child$", "-test.count", "1", "-test.timeout", "0")
		cmd.Env = append(os.Environ(), "VERIF_C18_CHILD_IN="+in, "VERIF_C18_CHILD_OUT="+out, "VERIF_OUT=", "VERIF_ONLY=", "VERIF_RESUME_AFTER=", "VERIF_SHARD=", "GOTRACEBACK=all")
		var so bytes.Buffer
		cmd.Stdout, cmd.Stderr = &so, &so
		runErr := cmd.Run()
		timedOut := ctx.Err() != nil
		cancel()
		started, finished := -1, map[int]bool{}
		if f, err := os.Open(out); err == nil {
			sc := bufio.NewScanner(f)
			sc.Buffer(make([]byte, 1<<20), 1<<28)
			for sc.Scan() {
				var ln c18ChildLine
				if json.Unmarshal(sc.Bytes(), &ln) != nil {
					continue
				}
				switch ln.T {
				case "start":
					started = ln.Idx
				case "res":
					finished[ln.Idx] = true
					pc := byIdx[ln.Idx]
					for _, ev := range ln.Evals {
						c.Eval(ev.FP)
						l.Count("peer_evals_"+pc.Target+"_"+pc.Kind, 1)
						for _, v := range ev.Viols {
							c.Violation(v.Sig, fmt.Sprintf("%s: %s", pc.Name, v.Detail), map[string]any{"peer_case": pc})
						}
					}
					for k, n := range ln.Counts {
						l.Count(k, n)
					}
					l.Count("peer_cases", 1)
				}
			}
			f.Close()
		}
		if runErr == nil && !timedOut {
			return
		}
		if started < 0 || finished[started] {
			c.Inconclusive(fmt.Sprintf("child process failed outside of a case: %v\n%s", runErr, c18Tail(so.String(), 3000)))
			return
		}
		pc := byIdx[started]
		if timedOut {
			c.Inconclusive(fmt.Sprintf("child process exceeded 3 min wall clock in case %s", pc.Name))
		} else {
			tail, head := c18ClassifyPanic(so.String())
			target := pc.Target
			if target == "both" {
				target = "server-or-client"
				if strings.Contains(tail, "responseWriter") || strings.Contains(tail, "Server") || strings.Contains(tail, "server") {
					target = "server"
				} else if strings.Contains(tail, "ClientConn") || strings.Contains(tail, "RequestStream") || strings.Contains(tail, "Transport") {
					target = "client"
				}
			}
			l.Count("peer_child_crashes", 1)
			c.Violation("C18|"+target+"|"+tail, fmt.Sprintf("%s: the process died: %s\n%s", pc.Name, head, c18Head(so.String(), 5000)), map[string]any{"peer_case": pc})
		}
		// continue behind the crashed case
		for i, r := range remaining {
			if r.Idx == started {
				remaining = remaining[i+1:]
				break
			}
		}
		if attempt > len(cases)+2 {
			return
		}
	}
}

func c18Tail(s string, n int) string {
	if len(s) > n {
		return s[len(s)-n:]
	}
	return s
}

func c18Head(s string, n int) string {
	if i := strings.Index(s, "panic: "); i >= 0 {
		s = s[i:]
	} else if i := strings.Index(s, "fatal error: "); i >= 0 {
		s = s[i:]
	}
	if len(s) > n {
		return s[:n]
	}
	return s
}
