package http3_test

// C18 — end-to-end monitor: the real http3.Server and http3.Transport / ClientConn talk over the
// simulated, fault-injecting network (quicworld/simworld) inside a synctest bubble; every generated
// exchange is executed by a scripted handler and a scripted client, and what both ends observed is
// compared with the reference model (zz_verif_c18_model_test.go).

import (
	"context"
	"fmt"
	"io"
	"log/slog"
	"math/rand/v2"
	"net/http"
	"net/http/httptrace"
	"net/textproto"
	"runtime"
	"strconv"
	"strings"
	"sync"
	"testing"
	"testing/synctest"
	"time"

	quic "github.com/refraction-networking/uquic"
	"github.com/refraction-networking/uquic/http3"
	"github.com/refraction-networking/uquic/internal/verif/evlog"
	"github.com/refraction-networking/uquic/internal/verif/quicworld"
	"github.com/refraction-networking/uquic/internal/verif/simworld"
	"github.com/refraction-networking/uquic/internal/verif/wiretap"
	tls "github.com/refraction-networking/utls"
)

// ---------------------------------------------------------------------------------------------
// observations

type c18ServerObs struct {
	mu            sync.Mutex
	Calls         int
	Method        string
	RequestURI    string
	Path          string
	RawQuery      string
	Host          string
	Proto         string
	Header        http.Header
	ContentLength int64
	Body          []byte
	ReadDone      bool
	ReadErr       string
	Trailer       http.Header
	HeaderSnap    http.Header
	InfoSnaps     []http.Header
	Written       []byte
	WriteErrs     []string
	NoBodyWrite   string // error returned by Write for a 204/304 response ("" = not attempted)
	Panic         string
	done          chan struct{}
}

func (o *c18ServerObs) called() bool {
	o.mu.Lock()
	defer o.mu.Unlock()
	return o.Calls > 0
}

type c18InfoObs struct {
	Code   int
	Header http.Header
}

type c18ClientObs struct {
	Err           string
	Status        int
	Proto         string
	Header        http.Header
	ContentLength int64
	Uncompressed  bool
	Info          []c18InfoObs
	Body          []byte
	ReadErr       string
	Trailer       http.Header
}

// A Read that keeps returning (0, nil) never ends for io.ReadAll-style callers: reported, not waited for.
const (
	c18MaxZeroReads = 2000
	c18Livelock     = "verif: Read returned (0, nil) 2000 times in a row"
)

type c18Viol struct {
	Sig    string
	Detail string
}

// ---------------------------------------------------------------------------------------------
// the scripted handler

type c18Handler struct {
	mu                 sync.Mutex
	ex                 map[int]*c18Exchange
	obs                map[int]*c18ServerObs
	disableCompression bool
	stray              []string
}

func c18NewHandler(disableCompression bool) *c18Handler {
	return &c18Handler{ex: map[int]*c18Exchange{}, obs: map[int]*c18ServerObs{}, disableCompression: disableCompression}
}

func (h *c18Handler) register(ex *c18Exchange) *c18ServerObs {
	o := &c18ServerObs{done: make(chan struct{})}
	h.mu.Lock()
	h.ex[ex.ID] = ex
	h.obs[ex.ID] = o
	h.mu.Unlock()
	return o
}

func c18PanicString(p any) string {
	buf := make([]byte, 16<<10)
	buf = buf[:runtime.Stack(buf, false)]
	return fmt.Sprintf("%v\n%s", p, buf)
}

func (h *c18Handler) ServeHTTP(w http.ResponseWriter, r *http.Request) {
	id := -1
	if rest, ok := strings.CutPrefix(r.URL.Path, "/c18/"); ok {
		s, _, _ := strings.Cut(rest, "/")
		if v, err := strconv.Atoi(s); err == nil {
			id = v
		}
	}
	h.mu.Lock()
	ex, o := h.ex[id], h.obs[id]
	if ex == nil {
		h.stray = append(h.stray, r.Method+" "+r.RequestURI)
	}
	h.mu.Unlock()
	if ex == nil {
		w.WriteHeader(599)
		return
	}
	o.mu.Lock()
	o.Calls++
	first := o.Calls == 1
	o.mu.Unlock()
	if !first {
		w.WriteHeader(598)
		return
	}
	defer close(o.done)
	defer func() {
		if p := recover(); p != nil {
			o.mu.Lock()
			o.Panic = c18PanicString(p)
			o.mu.Unlock()
			panic(http.ErrAbortHandler)
		}
	}()
	h.run(w, r, ex, o)
}

// run executes the script.  It writes the observation without holding o.mu (a goroutine blocked on a mutex
// is not durably blocked: virtual time would stop); readers wait for o.done first.
func (h *c18Handler) run(w http.ResponseWriter, r *http.Request, ex *c18Exchange, o *c18ServerObs) {
	o.Method, o.RequestURI, o.Path, o.RawQuery, o.Host, o.Proto = r.Method, r.RequestURI, r.URL.Path, r.URL.RawQuery, r.Host, r.Proto
	o.Header = r.Header.Clone()
	o.ContentLength = r.ContentLength

	buf := make([]byte, max(ex.ReadBuf, 1))
	zeroReads := 0
	read := func(limit int) { // limit < 0: until EOF / error
		for !o.ReadDone && limit != 0 {
			if zeroReads > c18MaxZeroReads {
				o.ReadDone, o.ReadErr = true, c18Livelock
				return
			}
			b := buf
			if limit > 0 && limit < len(b) {
				b = b[:limit]
			}
			n, err := r.Body.Read(b)
			o.Body = append(o.Body, b[:n]...)
			if limit > 0 {
				limit -= n
			}
			if n == 0 && err == nil {
				zeroReads++
			} else {
				zeroReads = 0
			}
			if err != nil {
				o.ReadDone = true
				if err != io.EOF {
					o.ReadErr = err.Error()
				}
				o.Trailer = r.Trailer.Clone()
			} else if n == 0 && limit > 0 {
				limit-- // a (0, nil) read: make progress towards the limit
			}
		}
	}
	if ex.ReadMode == "before" {
		read(-1)
	}

	hdr := w.Header()
	for _, kv := range ex.RespHdr {
		if kv.K != http.CanonicalHeaderKey(kv.K) {
			hdr[kv.K] = append([]string(nil), kv.V...)
			continue
		}
		for _, v := range kv.V {
			hdr.Add(kv.K, v)
		}
	}
	switch ex.DateMode {
	case "set":
		hdr.Set("Date", c18DateValue)
	case "nil":
		hdr["Date"] = nil
	}
	body := ex.respPlain()
	if ex.gzipped(h.disableCompression) {
		body = c18Gzip(body)
		hdr.Set("Content-Encoding", "gzip")
	}
	if ex.RespDeclared {
		hdr.Set("Content-Length", strconv.Itoa(len(body)+ex.RespCLDelta))
	}
	if len(ex.DeclTrailers) > 0 {
		var names []string
		for _, kv := range ex.DeclTrailers {
			names = append(names, kv.K)
		}
		if len(names) > 1 && ex.ID%2 == 0 { // two Trailer lines
			hdr.Add("Trailer", names[0])
			hdr.Add("Trailer", strings.Join(names[1:], ","))
		} else {
			hdr.Set("Trailer", strings.Join(names, ", "))
		}
		if ex.DeclEarly {
			for _, kv := range ex.DeclTrailers {
				hdr[kv.K] = append([]string(nil), kv.V...)
			}
		}
	}
	for _, inf := range ex.Info {
		for _, kv := range inf.Hdr {
			for _, v := range kv.V {
				hdr.Add(kv.K, v)
			}
		}
		o.InfoSnaps = append(o.InfoSnaps, c18CanonHeader(hdr))
		w.WriteHeader(inf.Code)
	}
	committed := false
	commit := func() {
		if !committed {
			committed = true
			o.HeaderSnap = c18CanonHeader(hdr)
		}
	}
	late := func() {
		if ex.LateHeader && committed {
			hdr.Set("X-Late-Header", "set-after-WriteHeader")
		}
	}
	if ex.ExplicitWH {
		commit()
		w.WriteHeader(ex.Status)
		if ex.DoubleWH {
			w.WriteHeader(500)
		}
		late()
	}
	if ex.FlushAfterHeader {
		commit()
		w.(http.Flusher).Flush()
		late()
	}
	if ex.ReadMode == "partial" {
		read(10)
	}
	chunks := ex.RespChunks
	if len(chunks) == 0 {
		chunks = []int{1 << 20}
	}
	rest := body
	for i, zeroRun := 0, 0; len(rest) > 0 || i == 0; i++ {
		n := chunks[i%len(chunks)]
		if n == 0 {
			zeroRun++
			if zeroRun > len(chunks) {
				n = len(rest)
			}
		}
		n = min(n, len(rest))
		if ex.ReadMode == "interleaved" {
			read(len(buf))
		}
		commit()
		m, err := w.Write(rest[:n])
		if m > 0 && m <= n {
			o.Written = append(o.Written, rest[:m]...)
		}
		if err != nil {
			o.WriteErrs = append(o.WriteErrs, err.Error())
			if ex.noBodyStatus() && ex.ExplicitWH {
				o.NoBodyWrite = err.Error()
			}
		} else if ex.noBodyStatus() && ex.ExplicitWH && n > 0 {
			o.NoBodyWrite = "nil"
		}
		late()
		rest = rest[n:]
		if ex.FlushEvery > 0 && (i+1)%ex.FlushEvery == 0 {
			w.(http.Flusher).Flush()
		}
	}
	if !ex.DeclEarly {
		for _, kv := range ex.DeclTrailers {
			hdr[kv.K] = append([]string(nil), kv.V...)
		}
	}
	for _, kv := range ex.PrefixTrailers {
		for _, v := range kv.V {
			hdr.Add(http.TrailerPrefix+kv.K, v)
		}
	}
	if ex.ReadMode == "after" || ex.ReadMode == "interleaved" {
		read(-1)
	}
	if !committed { // nothing was written: the response is committed when the handler returns
		trailerKeys := map[string]bool{}
		snap := c18CanonHeader(hdr)
		for k := range snap {
			if strings.HasPrefix(k, http.TrailerPrefix) {
				trailerKeys[k] = true
			}
		}
		for k := range trailerKeys {
			delete(snap, k)
		}
		o.HeaderSnap = snap
	}
}

// ---------------------------------------------------------------------------------------------
// the scripted client

type c18BodyReader struct {
	data   []byte
	chunks []int
	i      int
	zero   int
	onEOF  func()
	closed bool
}

func (b *c18BodyReader) Read(p []byte) (int, error) {
	if len(b.data) == 0 {
		if b.onEOF != nil {
			b.onEOF()
			b.onEOF = nil
		}
		return 0, io.EOF
	}
	n := 1 << 20
	if len(b.chunks) > 0 {
		n = b.chunks[b.i%len(b.chunks)]
		b.i++
		if n == 0 {
			b.zero++
			if b.zero > len(b.chunks) {
				n = len(b.data)
			}
		}
	}
	n = min(n, len(p), len(b.data))
	copy(p, b.data[:n])
	b.data = b.data[n:]
	return n, nil
}

func (b *c18BodyReader) Close() error { b.closed = true; return nil }

const c18Origin = "https://c18.test:9002"

func c18BuildRequest(ctx context.Context, ex *c18Exchange, co *c18ClientObs) (*http.Request, error) {
	var mu sync.Mutex
	trace := &httptrace.ClientTrace{Got1xxResponse: func(code int, hdr textproto.MIMEHeader) error {
		mu.Lock()
		co.Info = append(co.Info, c18InfoObs{code, http.Header(hdr).Clone()})
		mu.Unlock()
		return nil
	}}
	req, err := http.NewRequestWithContext(httptrace.WithClientTrace(ctx, trace), ex.Method, c18Origin+"/c18/"+strconv.Itoa(ex.ID)+ex.Path, nil)
	if err != nil {
		return nil, err
	}
	if ex.Host != "" {
		req.Host = ex.Host
	}
	for _, kv := range ex.ReqHdr {
		if kv.K != http.CanonicalHeaderKey(kv.K) {
			req.Header[kv.K] = append([]string(nil), kv.V...)
			continue
		}
		for _, v := range kv.V {
			req.Header.Add(kv.K, v)
		}
	}
	if ex.ReqBody >= 0 {
		br := &c18BodyReader{data: ex.reqBytes(), chunks: ex.ReqChunks}
		req.Body = br
		if ex.ReqDeclared {
			req.ContentLength = int64(ex.ReqBody + ex.ReqCLDelta)
		}
		if len(ex.ReqTrailers) > 0 {
			req.Trailer = http.Header{}
			for _, kv := range ex.ReqTrailers {
				if ex.ReqTrailersLate {
					req.Trailer[kv.K] = nil
				} else {
					req.Trailer[kv.K] = append([]string(nil), kv.V...)
				}
			}
			if ex.ReqTrailersLate {
				br.onEOF = func() {
					for _, kv := range ex.ReqTrailers {
						req.Trailer[kv.K] = append([]string(nil), kv.V...)
					}
				}
			}
		}
	}
	return req, nil
}

func c18DoExchange(ctx context.Context, rt http.RoundTripper, ex *c18Exchange) *c18ClientObs {
	co := &c18ClientObs{}
	ctx, cancel := context.WithTimeout(ctx, 90*time.Second)
	defer cancel()
	req, err := c18BuildRequest(ctx, ex, co)
	if err != nil {
		co.Err = "harness: " + err.Error()
		return co
	}
	resp, err := rt.RoundTrip(req)
	if err != nil {
		co.Err = err.Error()
		return co
	}
	co.Status, co.Proto, co.ContentLength, co.Uncompressed = resp.StatusCode, resp.Proto, resp.ContentLength, resp.Uncompressed
	co.Header = resp.Header.Clone()
	buf := make([]byte, max(ex.ClientReadBuf, 1))
	for zeroReads := 0; ; {
		n, err := resp.Body.Read(buf)
		co.Body = append(co.Body, buf[:n]...)
		if err != nil {
			if err != io.EOF {
				co.ReadErr = err.Error()
			}
			break
		}
		if n > 0 {
			zeroReads = 0
		} else if zeroReads++; zeroReads > c18MaxZeroReads {
			co.ReadErr = c18Livelock
			break
		}
	}
	co.Trailer = resp.Trailer.Clone()
	resp.Body.Close()
	return co
}

// ---------------------------------------------------------------------------------------------
// the oracle

func c18Compare(ex *c18Exchange, disableCompression bool, so *c18ServerObs, co *c18ClientObs) []c18Viol {
	var vs []c18Viol
	v := func(sig, format string, a ...any) { vs = append(vs, c18Viol{"C18|" + sig, fmt.Sprintf(format, a...)}) }
	reqMismatch, respMismatch := ex.ReqCLDelta != 0, ex.RespCLDelta != 0
	so.mu.Lock()
	calls := so.Calls
	so.mu.Unlock()
	if calls > 0 {
		select {
		case <-so.done:
		default: // still running (it started after the client had given up): its observation cannot be read
			v("server|handler-did-not-return", "client: err=%q read error=%q", co.Err, co.ReadErr)
			return vs
		}
	}

	if so.ReadErr == c18Livelock {
		v("server|request-body-read-never-ends", "after %d bytes Body.Read returned (0, nil) %d times in a row (declared Content-Length %d, body %d bytes)", len(so.Body), c18MaxZeroReads, ex.ReqBody+ex.ReqCLDelta, ex.ReqBody)
	}
	if co.ReadErr == c18Livelock {
		v("client|response-body-read-never-ends", "after %d bytes Body.Read returned (0, nil) %d times in a row", len(co.Body), c18MaxZeroReads)
	}
	// ---- what the handler saw
	if so.Panic != "" {
		tail, _ := c18ClassifyPanic("panic: " + so.Panic)
		v("server|"+tail, "recovered in the handler goroutine: %s", so.Panic)
	}
	switch {
	case calls == 0:
		if !reqMismatch {
			v("server|handler-not-invoked", "client: err=%q status=%d", co.Err, co.Status)
		}
	case calls > 1:
		v("server|handler-invoked-twice", "%d calls", calls)
	}
	if calls >= 1 {
		if so.Method != ex.Method {
			v("request|method", "handler saw %q, client sent %q", so.Method, ex.Method)
		}
		wantURI := "/c18/" + strconv.Itoa(ex.ID) + ex.Path
		if so.RequestURI != wantURI {
			v("request|uri", "handler saw RequestURI %q, client sent %q", so.RequestURI, wantURI)
		}
		if req, err := http.NewRequest("GET", c18Origin+wantURI, nil); err == nil {
			if so.Path != req.URL.Path || so.RawQuery != req.URL.RawQuery {
				v("request|url", "handler saw path %q query %q, client sent path %q query %q", so.Path, so.RawQuery, req.URL.Path, req.URL.RawQuery)
			}
		}
		wantHost := "c18.test:9002"
		if ex.Host != "" {
			wantHost = ex.Host
		}
		if so.Host != wantHost {
			v("request|host", "handler saw Host %q, client sent %q", so.Host, wantHost)
		}
		if so.Proto != "HTTP/3.0" {
			v("request|proto", "handler saw Proto %q", so.Proto)
		}
		want, ignore := ex.wantReqHeader(disableCompression)
		if d := c18DiffHeader(so.Header, want, ignore); d != "" {
			v("request|header", "%s", d)
		}
		declared := int64(-1)
		if ex.ReqBody >= 0 && ex.ReqDeclared && ex.ReqBody+ex.ReqCLDelta > 0 {
			declared = int64(ex.ReqBody + ex.ReqCLDelta)
		}
		if declared >= 0 && so.ContentLength != declared {
			v("request|content-length", "handler saw ContentLength %d, client declared %d", so.ContentLength, declared)
		}
		if declared < 0 && so.ContentLength > 0 {
			v("request|content-length", "handler saw ContentLength %d, client declared none", so.ContentLength)
		}
		if so.ReadDone {
			switch {
			case reqMismatch:
				if so.ReadErr == "" {
					kind := "short"
					if ex.ReqCLDelta < 0 {
						kind = "long"
					}
					v("server|content-length|"+kind+"-request-body-read-as-clean-EOF", "declared Content-Length %d, body given to the client %d bytes; the handler read %d bytes and then io.EOF without an error",
						ex.ReqBody+ex.ReqCLDelta, ex.ReqBody, len(so.Body))
				}
			case so.ReadErr != "":
				v("server|request-body-read-error", "after %d of %d bytes: %s", len(so.Body), max(ex.ReqBody, 0), so.ReadErr)
			default:
				if d := c18DiffBytes(so.Body, ex.reqBytes()); d != "" {
					v("request|body", "%s", d)
				}
				if d := c18DiffTrailers(so.Trailer, ex.wantTrailers(ex.ReqTrailers)); d != "" {
					v("request|trailers", "%s", d)
				}
			}
		}
		if ex.noBodyStatus() && ex.ExplicitWH && so.NoBodyWrite != "" && so.NoBodyWrite != http.ErrBodyNotAllowed.Error() {
			v("server|write-on-bodyless-status", "Write after WriteHeader(%d) returned %s, want http.ErrBodyNotAllowed", ex.Status, so.NoBodyWrite)
		}
		if !reqMismatch && !respMismatch && !ex.noBodyStatus() && len(so.WriteErrs) > 0 {
			v("server|response-write-error", "%v", so.WriteErrs)
		}
	}

	// ---- what the client saw
	if reqMismatch {
		// the request is malformed: the server may abort the exchange at any point (RFC 9114 4.1.2); only the
		// reading side's error is demanded
		return vs
	}
	if co.Err != "" {
		if !reqMismatch && !respMismatch {
			v("client|roundtrip-error", "%s", co.Err)
		}
		return vs
	}
	if calls == 0 {
		return vs
	}
	if co.Status != ex.Status {
		v("response|status", "client saw %d, handler wrote %d", co.Status, ex.Status)
		return vs
	}
	if co.Proto != "HTTP/3.0" {
		v("response|proto", "client saw Proto %q", co.Proto)
	}
	// 1xx
	if len(co.Info) != len(ex.Info) {
		v("response|1xx", "client saw %d informational responses, handler wrote %d", len(co.Info), len(ex.Info))
	} else {
		for i, inf := range ex.Info {
			if co.Info[i].Code != inf.Code {
				v("response|1xx", "informational response %d: client saw %d, handler wrote %d", i, co.Info[i].Code, inf.Code)
				continue
			}
			want := so.InfoSnaps[i].Clone()
			// fields meant for the final response that the handler had already set travel in the 1xx block too; the
			// client may strip the ones it interprets itself (Trailer, Content-Encoding, Content-Length)
			ign := map[string]bool{"Trailer": true, "Date": true, "Content-Length": true, "Content-Encoding": true}
			for _, kv := range ex.DeclTrailers {
				ign[http.CanonicalHeaderKey(kv.K)] = true
			}
			if d := c18DiffHeader(co.Info[i].Header, want, ign); d != "" {
				v("response|1xx-header", "informational response %d (%d): %s", i, inf.Code, d)
			}
		}
	}
	// header block
	gz := ex.gzipped(disableCompression)
	auto := gz && ex.autoGzip(disableCompression)
	want := http.Header{}
	for k, vv := range so.HeaderSnap {
		want[k] = vv
	}
	ignore := map[string]bool{"Content-Length": true}
	delete(want, "Trailer")
	for _, kv := range ex.DeclTrailers {
		delete(want, http.CanonicalHeaderKey(kv.K))
	}
	for k := range want {
		if strings.HasPrefix(k, http.TrailerPrefix) {
			delete(want, k)
		}
	}
	if ex.DateMode == "" {
		ignore["Date"] = true
	}
	if _, set := want["Content-Type"]; !set {
		ignore["Content-Type"] = true
	}
	if auto {
		delete(want, "Content-Encoding")
	}
	got := co.Header
	if _, lateSeen := got["X-Late-Header"]; lateSeen && ex.LateHeader {
		v("response|header-set-after-WriteHeader-was-sent", "the handler set X-Late-Header after WriteHeader/Write (no effect per http.ResponseWriter); the client received it")
		ignore["X-Late-Header"] = true
	}
	if d := c18DiffHeader(got, want, ignore); d != "" {
		v("response|header", "%s", d)
	}
	// body
	wantBody := so.Written
	bodyless := ex.Method == "HEAD" || ex.noBodyStatus()
	if bodyless {
		wantBody = nil
	}
	if auto && !bodyless && !respMismatch {
		wantBody = ex.respPlain()
		if !co.Uncompressed {
			v("response|gzip", "transport asked for gzip by itself and got Content-Encoding: gzip, but Uncompressed is false")
		}
	} else if co.Uncompressed {
		v("response|gzip", "Uncompressed set although the transport must not decompress (explicit Accept-Encoding/Range, HEAD, DisableCompression or no gzip response)")
	}
	declared := int64(-1)
	if ex.RespDeclared {
		declared = int64(len(so.Written)) // refined below
		if gz {
			declared = int64(len(c18Gzip(ex.respPlain())) + ex.RespCLDelta)
		} else {
			declared = int64(ex.RespBody + ex.RespCLDelta)
		}
	}
	switch {
	case co.ReadErr != "":
		if !respMismatch {
			v("client|response-body-read-error", "after %d bytes: %s", len(co.Body), co.ReadErr)
		}
	default:
		if declared >= 0 && !bodyless && !auto && int64(len(co.Body)) != declared {
			kind := "short"
			if int64(len(co.Body)) > declared {
				kind = "long"
			}
			v("client|content-length|"+kind+"-response-body-read-as-clean-EOF", "handler declared Content-Length %d and wrote %d bytes (accepted by Write: %d); the client read %d bytes and then io.EOF without an error",
				declared, len(so.Written)+c18RejectedLen(ex, so, gz), len(so.Written), len(co.Body))
		} else if d := c18DiffBytes(co.Body, wantBody); d != "" {
			v("response|body", "%s", d)
		}
		if !bodyless && !respMismatch {
			wt := ex.wantTrailers(append(append([]c18KV(nil), ex.DeclTrailers...), ex.PrefixTrailers...))
			if d := c18DiffTrailers(co.Trailer, wt); d != "" {
				v("response|trailers", "%s", d)
			}
		}
	}
	// Content-Length as seen by the client
	switch {
	case auto && !bodyless:
		if co.ContentLength != -1 || len(co.Header["Content-Length"]) > 0 {
			v("response|content-length", "transparently decompressed response has ContentLength %d / header %q", co.ContentLength, co.Header["Content-Length"])
		}
	case declared >= 0:
		if co.ContentLength != declared {
			v("response|content-length", "client saw ContentLength %d, handler declared %d", co.ContentLength, declared)
		}
	case ex.Method == "HEAD" && !ex.noBodyStatus() && co.ReadErr == "":
		// an automatic Content-Length on a HEAD response announces what the same handler output would be
		// for GET (RFC 9110 9.3.2): the bytes the handler wrote, or nothing at all
		if co.ContentLength != -1 && co.ContentLength != int64(len(so.Written)) {
			v("response|content-length|head", "HEAD: client saw an automatic ContentLength %d, the handler wrote %d bytes", co.ContentLength, len(so.Written))
		}
	case !bodyless && co.ReadErr == "":
		if co.ContentLength != -1 && co.ContentLength != int64(len(co.Body)) {
			v("response|content-length", "client saw an automatic ContentLength %d but a body of %d bytes", co.ContentLength, len(co.Body))
		}
	}
	return vs
}

func c18RejectedLen(ex *c18Exchange, so *c18ServerObs, gz bool) int {
	total := ex.RespBody
	if gz {
		total = len(c18Gzip(ex.respPlain()))
	}
	return total - len(so.Written)
}

// ---------------------------------------------------------------------------------------------
// one connection

type c18ConnCase struct {
	Name               string            `json:"name"`
	Client             string            `json:"client"` // plain | unil | <QUICID>
	Logger             bool              `json:"logger"`
	DisableCompression bool              `json:"disable_compression,omitempty"`
	UseClientConn      bool              `json:"use_client_conn,omitempty"`
	ServeConn          bool              `json:"serve_conn,omitempty"` // ServeQUICConn instead of ServeListener
	RTTms              int               `json:"rtt_ms"`
	Schedule           simworld.Schedule `json:"schedule"`
	Seed               uint64            `json:"seed"`
	Waves              []int             `json:"waves"` // concurrency of each wave
	Big                bool              `json:"big,omitempty"`
	Mismatch           bool              `json:"mismatch,omitempty"`
	Tap                bool              `json:"tap,omitempty"`
}

type c18ConnResult struct {
	WorldErr      error
	Exchanges     []c18Exchange
	Conc          []int
	Viols         [][]c18Viol
	Stray         []string
	FaultsApplied int
	RouterLog     []simworld.Event
	Taps          []*wiretap.ConnTap
	Leaked        []string
	ServeErr      string
	Elapsed       time.Duration
}

type c18DiscardHandler struct{}

func (c18DiscardHandler) Enabled(context.Context, slog.Level) bool  { return true }
func (c18DiscardHandler) Handle(context.Context, slog.Record) error { return nil }
func (h c18DiscardHandler) WithAttrs([]slog.Attr) slog.Handler      { return h }
func (h c18DiscardHandler) WithGroup(string) slog.Handler           { return h }

func c18Logger(on bool) *slog.Logger {
	if !on {
		return nil
	}
	return slog.New(c18DiscardHandler{})
}

func c18WorldOptions(client string, rttMs int, sched simworld.Schedule, tap bool) (quicworld.Options, error) {
	opt := quicworld.Options{Schedule: sched, RTT: time.Duration(rttMs) * time.Millisecond, ALPN: "h3", NoTap: !tap,
		ServerConf: &quic.Config{MaxIdleTimeout: 60 * time.Second, HandshakeIdleTimeout: 20 * time.Second},
		ClientConf: &quic.Config{MaxIdleTimeout: 60 * time.Second, HandshakeIdleTimeout: 20 * time.Second, KeepAlivePeriod: 10 * time.Second, MaxIncomingStreams: -1}}
	switch client {
	case "plain", "":
		opt.ClientKind = "plain"
	case "unil":
		opt.ClientKind = "unil"
	default:
		id, ok := quicworld.QUICIDs[client]
		if !ok {
			return opt, fmt.Errorf("unknown client kind %q", client)
		}
		spec, err := quic.QUICID2Spec(id)
		if err != nil {
			return opt, err
		}
		opt.ClientKind, opt.Spec = "spec", &spec
	}
	return opt, nil
}

func (cs *c18ConnCase) exchanges() ([]c18Exchange, []int) {
	rng := rand.New(rand.NewPCG(cs.Seed, 0xc18))
	var exs []c18Exchange
	var conc []int
	id := 0
	for _, n := range cs.Waves {
		for i := 0; i < n; i++ {
			mm := 0
			if cs.Mismatch && id%5 != 4 {
				mm = 1 + id%4
			}
			ex := c18GenExchange(rng, id, cs.Big && n <= 4, mm)
			if ex.ReqBody > 50000 {
				ex.ReadBuf = max(ex.ReadBuf, 512)
			}
			if ex.RespBody > 50000 {
				ex.ClientReadBuf = max(ex.ClientReadBuf, 512)
			}
			exs = append(exs, ex)
			conc = append(conc, n)
			id++
		}
	}
	return exs, conc
}

// c18Dialer is the Transport's Dial hook.  It remembers every connection: the Transport forgets (without
// closing) the connection of a failed request, and the bubble must not end with live connections.
type c18Dialer struct {
	w     *quicworld.World
	mu    sync.Mutex
	conns []*quic.Conn
}

func (d *c18Dialer) dial(ctx context.Context, _ string, _ *tls.Config, _ *quic.Config) (*quic.Conn, error) {
	c, err := d.w.Dial(ctx)
	if err == nil {
		d.mu.Lock()
		d.conns = append(d.conns, c)
		d.mu.Unlock()
	}
	return c, err
}

func (d *c18Dialer) closeAll() {
	d.mu.Lock()
	conns := d.conns
	d.mu.Unlock()
	for _, c := range conns {
		c.CloseWithError(quic.ApplicationErrorCode(c18ErrNoError), "")
	}
}

// c18RunConn runs one connection case inside the caller's bubble.
func c18RunConn(cs *c18ConnCase) *c18ConnResult {
	res := &c18ConnResult{}
	opt, err := c18WorldOptions(cs.Client, cs.RTTms, cs.Schedule, cs.Tap)
	if err != nil {
		res.WorldErr = err
		return res
	}
	w, err := quicworld.New(opt)
	if err != nil {
		res.WorldErr = err
		return res
	}
	start := time.Now()
	lg := c18Logger(cs.Logger)
	h := c18NewHandler(cs.DisableCompression)
	srv := &http3.Server{Handler: h, Logger: lg}
	ctx, cancel := context.WithCancel(context.Background())
	serveDone := make(chan error, 1)
	if cs.ServeConn {
		go func() {
			conn, err := w.Accept(ctx)
			if err != nil {
				serveDone <- err
				return
			}
			serveDone <- srv.ServeQUICConn(conn)
		}()
	} else {
		go func() { serveDone <- srv.ServeListener(w.Listener) }()
	}
	dialer := &c18Dialer{w: w}
	tr := &http3.Transport{DisableCompression: cs.DisableCompression, Logger: lg, Dial: dialer.dial}
	var rt http.RoundTripper = tr
	var rawConn *quic.Conn
	if cs.UseClientConn {
		dctx, dcancel := context.WithTimeout(ctx, 45*time.Second)
		rawConn, err = w.Dial(dctx)
		dcancel()
		if err != nil {
			res.WorldErr = fmt.Errorf("dial: %w", err)
		} else {
			rt = tr.NewClientConn(rawConn)
		}
	}
	exs, conc := cs.exchanges()
	res.Exchanges, res.Conc = exs, conc
	res.Viols = make([][]c18Viol, len(exs))
	if res.WorldErr == nil {
		idx := 0
		for _, n := range cs.Waves {
			var wg sync.WaitGroup
			for i := 0; i < n; i++ {
				ex := &exs[idx]
				slot := &res.Viols[idx]
				idx++
				so := h.register(ex)
				wg.Add(1)
				go func() {
					defer wg.Done()
					co := c18DoExchange(ctx, rt, ex)
					if so.called() {
						select {
						case <-so.done:
						case <-time.After(120 * time.Second):
							*slot = append(*slot, c18Viol{"C18|server|handler-did-not-return", "120 s (virtual) after the client finished"})
							return
						}
					}
					*slot = append(*slot, c18Compare(ex, cs.DisableCompression, so, co)...)
				}()
			}
			wg.Wait()
		}
	}
	res.Elapsed = time.Since(start)
	cancel()
	tr.Close()
	dialer.closeAll()
	if rawConn != nil {
		rawConn.CloseWithError(quic.ApplicationErrorCode(c18ErrNoError), "")
	}
	srv.Close()
	select {
	case err := <-serveDone:
		if err != nil {
			res.ServeErr = err.Error()
		}
	case <-time.After(30 * time.Second):
		res.ServeErr = "Serve did not return within 30 s (virtual) of Server.Close"
	}
	res.FaultsApplied, _ = w.Router.FaultsApplied()
	w.Close()
	time.Sleep(3 * time.Second)
	if w.Wire != nil {
		res.Taps = w.Wire.Snapshot()
	}
	res.RouterLog = w.Router.Log
	h.mu.Lock()
	res.Stray = h.stray
	h.mu.Unlock()
	res.Leaked = quicworld.BubbleGoroutines()
	return res
}

// ---------------------------------------------------------------------------------------------
// suites

func c18ReportConn(l *evlog.Log, c *evlog.Case, cs *c18ConnCase, res *c18ConnResult) {
	if res.WorldErr != nil {
		c.Violation("C18|harness|world", res.WorldErr.Error(), map[string]any{"router": res.RouterLog})
		return
	}
	faults := len(cs.Schedule.Faults) > 0 || cs.Schedule.Rate != nil
	// A QUIC flow-control error between two conforming endpoints kills the connection and every exchange on it:
	// one violation under its own signature (the defect is in the transport, not in http3) instead of many.
	for i := range res.Exchanges {
		for _, v := range res.Viols[i] {
			if strings.Contains(v.Detail, "FLOW_CONTROL_ERROR") {
				c.Violation("C18|quic|FLOW_CONTROL_ERROR-between-conforming-endpoints|client="+cs.Client, fmt.Sprintf("exchange %d of %s: %s", res.Exchanges[i].ID, cs.Name, v.Detail),
					map[string]any{"exchange": &res.Exchanges[i], "conn": cs})
				for j := range res.Viols {
					res.Viols[j] = nil
				}
				break
			}
		}
	}
	for i := range res.Exchanges {
		ex := &res.Exchanges[i]
		fp := ex.fingerprint(res.Conc[i], cs.Client, faults, cs.Logger)
		if faults && res.FaultsApplied == 0 {
			fp = ""
		}
		c.Eval(fp)
		l.Count("exchanges", 1)
		l.Count("exchanges_method_"+ex.Method, 1)
		l.Count(fmt.Sprintf("exchanges_status_%dxx", ex.Status/100), 1)
		if ex.ReqBody >= 0 {
			l.Count("request_body_bytes", int64(ex.ReqBody))
		}
		l.Count("response_body_bytes", int64(ex.RespBody))
		if len(ex.ReqTrailers) > 0 {
			l.Count("exchanges_request_trailers", 1)
		}
		if len(ex.DeclTrailers) > 0 {
			l.Count("exchanges_declared_trailers", 1)
		}
		if len(ex.PrefixTrailers) > 0 {
			l.Count("exchanges_trailerprefix_trailers", 1)
		}
		if len(ex.Info) > 0 {
			l.Count("exchanges_with_1xx", 1)
		}
		if ex.Gzip != "" {
			l.Count("exchanges_gzip_script", 1)
		}
		if ex.ReqCLDelta != 0 || ex.RespCLDelta != 0 {
			l.Count("exchanges_content_length_mismatch", 1)
		}
		if res.Conc[i] > 1 {
			l.Count("exchanges_concurrent", 1)
		}
		if faults {
			l.Count("exchanges_under_faults", 1)
		}
		if cs.Logger {
			l.Count("exchanges_logger_set", 1)
		} else {
			l.Count("exchanges_logger_nil", 1)
		}
		if cs.Client != "plain" && cs.Client != "unil" {
			l.Count("exchanges_spec_client", 1)
		}
		if len(res.Viols[i]) == 0 {
			l.Count("exchanges_ok", 1)
		}
		for _, v := range res.Viols[i] {
			c.Violation(v.Sig, fmt.Sprintf("exchange %d of %s: %s", ex.ID, cs.Name, v.Detail), map[string]any{"exchange": ex, "conn": cs, "router": c18TrimLog(res.RouterLog)})
		}
	}
	l.Count("connections", 1)
	l.Count("faults_applied", int64(res.FaultsApplied))
	for _, tp := range res.Taps {
		for k, v := range tp.Counts {
			if strings.HasPrefix(k, "stream_") || strings.HasPrefix(k, "frame_") {
				l.Count("wire:"+k, v)
			}
		}
	}
	if len(res.Stray) > 0 {
		c.Violation("C18|server|request-for-unknown-target", fmt.Sprintf("%q", res.Stray), map[string]any{"conn": cs})
	}
	if res.ServeErr != "" && res.ServeErr != http.ErrServerClosed.Error() && !strings.Contains(res.ServeErr, "accepting stream failed") {
		c.Violation("C18|server|serve-error", res.ServeErr, map[string]any{"conn": cs})
	}
	if len(res.Leaked) > 0 {
		c.Violation("C18|leak|goroutines-alive-after-close", fmt.Sprintf("%d goroutine(s) of the bubble alive 3 s (virtual) after Server.Close, Transport.Close and World.Close:\n%s", len(res.Leaked), strings.Join(res.Leaked[:min(len(res.Leaked), 6)], "\n\n")), map[string]any{"conn": cs})
	}
	if faults && res.FaultsApplied > 0 {
		c.Sample("exchange-under-faults", map[string]any{"case": cs.Name, "faults_applied": res.FaultsApplied, "exchanges": len(res.Exchanges), "virtual_elapsed": res.Elapsed.String()})
	} else {
		c.Sample("connection", map[string]any{"case": cs.Name, "exchanges": len(res.Exchanges), "virtual_elapsed": res.Elapsed.String()})
	}
}

func c18TrimLog(ev []simworld.Event) []simworld.Event {
	var out []simworld.Event
	for _, e := range ev {
		if e.Action != "pass" {
			out = append(out, e)
		}
	}
	if len(out) > 200 {
		out = out[:200]
	}
	return out
}

func c18RunConnCases(t *testing.T, l *evlog.Log, cases []*c18ConnCase) {
	for i, cs := range cases {
		if !l.Mine(i) {
			continue
		}
		c := l.Begin("C18/"+cs.Name, cs)
		if c == nil {
			continue
		}
		synctest.Test(t, func(t *testing.T) {
			res := c18RunConn(cs)
			c18ReportConn(l, c, cs, res)
		})
		c.End()
	}
}

var c18Clients = []string{"plain", "plain", "plain", "unil", "Chrome_115_IPv4", "Firefox_116A"}

func c18CleanCases(l *evlog.Log, key string, n int, maxConc int) []*c18ConnCase {
	rng := l.Rand(key)
	var out []*c18ConnCase
	concs := []int{1, 1, 2, 3, 4, 8, 16}
	for i := 0; i < n; i++ {
		cs := &c18ConnCase{Name: fmt.Sprintf("%s/%04d", key, i), Client: c18Clients[rng.IntN(len(c18Clients))], Logger: i%2 == 1, DisableCompression: rng.IntN(6) == 0,
			UseClientConn: rng.IntN(2) == 0, ServeConn: rng.IntN(3) == 0, RTTms: []int{1, 10, 10, 50}[rng.IntN(4)], Seed: rng.Uint64(), Big: rng.IntN(8) == 0}
		for w := 1 + rng.IntN(3); w > 0; w-- {
			cs.Waves = append(cs.Waves, min(maxConc, concs[rng.IntN(len(concs))]))
		}
		out = append(out, cs)
	}
	return out
}

func TestVerifC18Exchanges(t *testing.T) {
	l := evlog.Open("C18")
	defer l.Close()
	cases := c18CleanCases(l, "clean", l.Pick(260, 16000), 16)
	// Content-Length disagreements, both directions, shorter and longer
	rng := l.Rand("mismatch")
	for i := 0; i < l.Pick(40, 1200); i++ {
		cases = append(cases, &c18ConnCase{Name: fmt.Sprintf("mismatch/%04d", i), Client: c18Clients[rng.IntN(len(c18Clients))], Logger: i%2 == 0, RTTms: 10,
			UseClientConn: rng.IntN(2) == 0, Seed: rng.Uint64(), Waves: []int{1, 1, 4}, Mismatch: true})
	}
	// single faults on each of the first datagrams of either direction
	rtt := 10 * time.Millisecond
	kinds := quicworld.FaultKinds(rtt)
	rng = l.Rand("faults")
	for d := 0; d < 2; d++ {
		for o := 0; o < l.Pick(12, 40); o++ {
			for ki, a := range kinds {
				cases = append(cases, &c18ConnCase{Name: fmt.Sprintf("k1/d%d-o%d-f%d", d, o, ki), Client: c18Clients[rng.IntN(len(c18Clients))], Logger: (o+ki)%2 == 0, RTTms: 10,
					UseClientConn: rng.IntN(2) == 0, Seed: rng.Uint64(), Waves: []int{3}, Tap: true,
					Schedule: simworld.Schedule{Faults: []simworld.Fault{{Dir: wiretap.Dir(d), Ordinal: o, Action: a}}}})
			}
		}
	}
	// seeded multi-fault and loss/reordering-rate schedules
	for i := 0; i < l.Pick(60, 2500); i++ {
		cs := &c18ConnCase{Name: fmt.Sprintf("rate/%04d", i), Client: c18Clients[rng.IntN(len(c18Clients))], Logger: i%2 == 0, RTTms: []int{1, 10, 10, 50}[rng.IntN(4)],
			UseClientConn: rng.IntN(2) == 0, Seed: rng.Uint64(), Waves: []int{2, 4}, Tap: true, Big: rng.IntN(6) == 0}
		if i%3 == 0 {
			var fs []simworld.Fault
			for j := 0; j < 3; j++ {
				fs = append(fs, simworld.Fault{Dir: wiretap.Dir(rng.IntN(2)), Ordinal: rng.IntN(30), Action: kinds[rng.IntN(len(kinds))]})
			}
			cs.Schedule = simworld.Schedule{Faults: fs}
		} else {
			p := 0.01 + 0.19*rng.Float64()
			r := &simworld.Rate{Seed: rng.Uint64(), Until: 2 * time.Second}
			switch rng.IntN(3) {
			case 0:
				r.PDrop = p
			case 1:
				r.PDrop, r.PDup, r.PDelay = p/3, p/3, p/3
			case 2:
				r.PDelay, r.PDup = p/2, p/2
			}
			cs.Schedule = simworld.Schedule{Rate: r}
		}
		cases = append(cases, cs)
	}
	c18RunConnCases(t, l, cases)
}

// TestVerifC18Race: concurrent exchanges on shared connections under the race detector.
func TestVerifC18Race(t *testing.T) {
	l := evlog.Open("C18")
	defer l.Close()
	cases := c18CleanCases(l, "race", l.Pick(45, 400), 8)
	for _, cs := range cases {
		cs.Big = false
		cs.Waves = []int{8}
		if cs.Client != "plain" && cs.Client != "unil" {
			cs.Client = "plain"
		}
	}
	c18RunConnCases(t, l, cases)
}
