package http3

// C19, writer agreement: generated http.Request values / handler header maps go through the real
// requestWriter / responseWriter; the bytes are cut into HTTP/3 frames by a decoder of our own,
// the field section is decoded with qpack, compared with a model of what a correct writer must put
// on the wire for that message, and handed to the real parser, which must accept it and decode it
// to the same fields (the comparison with the model's decoding is done by c19Check).

import (
	"bytes"
	"context"
	"fmt"
	"io"
	"log/slog"
	"math/rand/v2"
	"net/http"
	"net/url"
	"sort"
	"strconv"
	"strings"
	"testing"
	"time"

	"github.com/quic-go/qpack"

	quic "github.com/refraction-networking/uquic"
	"github.com/refraction-networking/uquic/internal/verif/evlog"
)

// ---------------------------------------------------------------------------------------
// HTTP/3 framing, decoded independently of frameParser (RFC 9000 §16 varints, RFC 9114 §7.1)

type c19Frame struct {
	Type    uint64
	Payload []byte
}

func c19Varint(b []byte) (v uint64, n int, ok bool) {
	if len(b) == 0 {
		return 0, 0, false
	}
	n = 1 << (b[0] >> 6)
	if len(b) < n {
		return 0, 0, false
	}
	v = uint64(b[0] & 0x3f)
	for i := 1; i < n; i++ {
		v = v<<8 | uint64(b[i])
	}
	return v, n, true
}

func c19AppendVarint(b []byte, v uint64) []byte {
	switch {
	case v < 1<<6:
		return append(b, byte(v))
	case v < 1<<14:
		return append(b, byte(v>>8)|0x40, byte(v))
	case v < 1<<30:
		return append(b, byte(v>>24)|0x80, byte(v>>16), byte(v>>8), byte(v))
	}
	return append(b, byte(v>>56)|0xc0, byte(v>>48), byte(v>>40), byte(v>>32), byte(v>>24), byte(v>>16), byte(v>>8), byte(v))
}

func c19Frames(b []byte) ([]c19Frame, error) {
	var out []c19Frame
	for len(b) > 0 {
		t, n, ok := c19Varint(b)
		if !ok {
			return out, fmt.Errorf("truncated frame type")
		}
		b = b[n:]
		l, n, ok := c19Varint(b)
		if !ok {
			return out, fmt.Errorf("truncated frame length")
		}
		b = b[n:]
		if uint64(len(b)) < l {
			return out, fmt.Errorf("frame type %#x: length %d, %d bytes left", t, l, len(b))
		}
		out = append(out, c19Frame{Type: t, Payload: b[:l]})
		b = b[l:]
	}
	return out, nil
}

func c19QpackDecode(blk []byte) ([]c19F, error) {
	var got []c19F
	fn := qpack.NewDecoder().Decode(blk)
	for {
		hf, err := fn()
		if err != nil {
			if err == io.EOF {
				return got, nil
			}
			return got, err
		}
		got = append(got, hf)
	}
}

// ---------------------------------------------------------------------------------------
// comparison of a decoded field section with the model's expectation

const c19Wild = "\x01any"

func c19Canon(fields []c19F) []string {
	out := make([]string, len(fields))
	for i, f := range fields {
		v := f.Value
		if f.Name == "trailer" && v != c19Wild {
			parts := strings.Split(v, ",")
			for j := range parts {
				parts[j] = strings.ToLower(strings.Trim(parts[j], " \t"))
			}
			sort.Strings(parts)
			v = strings.Join(parts, ",")
		}
		out[i] = strconv.Quote(f.Name) + ": " + strconv.Quote(v)
	}
	sort.Strings(out)
	return out
}

func c19SameFields(got, want []c19F) string {
	g, w := c19Canon(got), c19Canon(want)
	if len(g) == len(w) {
		same := true
		for i := range g {
			if g[i] != w[i] {
				same = false
			}
		}
		if same {
			return ""
		}
	}
	return fmt.Sprintf("on the wire %v, the message has %v", g, w)
}

func c19PseudoFirst(fields []c19F) bool {
	reg := false
	for _, f := range fields {
		if strings.HasPrefix(f.Name, ":") {
			if reg {
				return false
			}
		} else {
			reg = true
		}
	}
	return true
}

var c19ForbiddenTrailer = []string{"Content-Length", "Transfer-Encoding", "Trailer", "Authorization", "Host", "If-Match", "Content-Type"}
var c19ValidTrailer = []string{"X-Trailer-1", "Grpc-Status", "x-lower-t", "Server-Timing", "X-Checksum", "Grpc-Message"}

func c19IsForbiddenTrailer(k string) bool {
	ck := http.CanonicalHeaderKey(k)
	for _, f := range c19ForbiddenTrailer {
		if ck == f {
			return true
		}
	}
	return false
}

func c19WithoutForbiddenTrailers(fields []c19F) []c19F {
	var out []c19F
	for _, f := range fields {
		if !c19IsForbiddenTrailer(f.Name) {
			out = append(out, f)
		}
	}
	return out
}

func c19WriterValue(rng *rand.Rand) string {
	switch rng.IntN(10) {
	case 0:
		return ""
	case 1:
		return " lead and trail "
	case 2:
		return "tab\there"
	case 3:
		return "caf\xc3\xa9 \x80\xff"
	case 4:
		return strings.Repeat("L", 200+rng.IntN(4000))
	case 5:
		return "a, b; q=0.5, \"quoted\\\"\""
	}
	n := 1 + rng.IntN(16)
	b := make([]byte, n)
	for i := range b {
		b[i] = byte(0x21 + rng.IntN(0x7f-0x21))
	}
	return string(b)
}

func c19Values(rng *rand.Rand) []string {
	switch rng.IntN(8) {
	case 0:
		return nil
	case 1:
		return []string{}
	case 2:
		return []string{c19WriterValue(rng), c19WriterValue(rng)}
	case 3:
		return []string{c19WriterValue(rng), "", c19WriterValue(rng)}
	}
	return []string{c19WriterValue(rng)}
}

// ---------------------------------------------------------------------------------------
// request writer

type c19ReqIn struct {
	Method   string
	URL      string // "scheme://host/uri"; "*" form: scheme://host + Path "*"
	Star     bool
	Host     string // Request.Host override
	Proto    string
	Header   map[string][]string
	Trailer  map[string][]string
	Body     string // "nil", "known", "unknown"
	CL       int64
	Gzip     bool
	Class    string
	wantHost string
}

var c19Hosts = [][2]string{
	{"quic-go.net", "quic-go.net"}, {"example.com:8443", "example.com:8443"}, {"[::1]:443", "[::1]:443"}, {"127.0.0.1", "127.0.0.1"},
	{"b\xc3\xbccher.de", "xn--bcher-kva.de"}, {"b\xc3\xbccher.de:8443", "xn--bcher-kva.de:8443"}, {"a-b.c_d.example", "a-b.c_d.example"},
}

var c19ReqHeaderNames = []string{"Accept", "accept-language", "X-Custom-Header", "x-MiXed", "X-Mixed", "X-!#$%&'*+-.^_`|~", "Cookie", "User-Agent", "user-agent", "Te",
	"Host", "Content-Length", "Connection", "Keep-Alive", "Proxy-Connection", "Transfer-Encoding", "Upgrade", "Trailer", "Priority", "Authorization", "X-Empty", "Accept-Encoding", "Range"}

func c19GenReq(rng *rand.Rand) c19ReqIn {
	in := c19ReqIn{Class: "valid_message"}
	in.Method = []string{"GET", "GET", "HEAD", "POST", "PUT", "PATCH", "DELETE", "OPTIONS", "CONNECT", "CONNECT", "FOO", "get", "M-SEARCH"}[rng.IntN(13)]
	if rng.IntN(40) == 0 {
		in.Method = ""
		in.Class = "empty_method" // documented by net/http: "For client requests, an empty string means GET"
	}
	h := c19Hosts[rng.IntN(len(c19Hosts))]
	in.wantHost = h[1]
	scheme := []string{"https", "https", "http"}[rng.IntN(3)]
	uri := []string{"", "/", "/foo", "//foo", "/a%20b", "/foo?x=1&y=2", "/\xc3\xbc/x", "/?", "/a;b=c", "/foo#frag", "?q=1", "/" + strings.Repeat("p", 300)}[rng.IntN(12)]
	in.URL = scheme + "://" + h[0] + uri
	if in.Method == "OPTIONS" && rng.IntN(2) == 0 {
		in.Star = true
		in.URL = scheme + "://" + h[0]
	}
	if rng.IntN(5) == 0 {
		h2 := c19Hosts[rng.IntN(len(c19Hosts))]
		in.Host = h2[0]
		in.wantHost = h2[1]
	}
	switch rng.IntN(4) {
	case 0:
		in.Proto = ""
	case 1:
		in.Proto = "HTTP/1.1"
	case 2:
		in.Proto = "HTTP/1.1"
		if in.Method == "CONNECT" {
			in.Proto = []string{"webtransport", "connect-udp", "websocket"}[rng.IntN(3)]
		}
	case 3:
		in.Proto = "HTTP/1.1"
	}
	in.Header = map[string][]string{}
	n := rng.IntN(8)
	for i := 0; i < n; i++ {
		k := c19ReqHeaderNames[rng.IntN(len(c19ReqHeaderNames))]
		vv := c19Values(rng)
		switch strings.ToLower(k) {
		case "te":
			vv = []string{"trailers"}
		case "trailer":
			vv = []string{"X-Announced-By-Header"}
		}
		in.Header[k] = vv
	}
	if rng.IntN(4) == 0 {
		in.Trailer = map[string][]string{}
		delete(in.Header, "Trailer")
		for i, m := 0, 1+rng.IntN(4); i < m; i++ {
			if rng.IntN(4) == 0 {
				in.Trailer[c19ForbiddenTrailer[rng.IntN(len(c19ForbiddenTrailer))]] = []string{"42"}
			} else {
				vv := c19Values(rng)
				in.Trailer[c19ValidTrailer[rng.IntN(len(c19ValidTrailer))]] = vv
			}
		}
	}
	in.Body = []string{"nil", "nil", "known", "unknown"}[rng.IntN(4)]
	switch in.Body {
	case "known":
		in.CL = int64(1 + rng.IntN(100000))
	case "unknown":
		in.CL = []int64{0, -1}[rng.IntN(2)]
	}
	in.Gzip = rng.IntN(3) == 0
	return in
}

func (in *c19ReqIn) build() (*http.Request, error) {
	u, err := url.Parse(in.URL)
	if err != nil {
		return nil, err
	}
	if in.Star {
		u.Path = "*"
	}
	req := &http.Request{Method: in.Method, URL: u, Host: in.Host, Proto: in.Proto, Header: http.Header{}, ContentLength: in.CL}
	for k, vv := range in.Header {
		req.Header[k] = vv
	}
	if in.Trailer != nil {
		req.Trailer = http.Header{}
		for k, vv := range in.Trailer {
			req.Trailer[k] = vv
		}
	}
	if in.Body != "nil" {
		req.Body = io.NopCloser(strings.NewReader(""))
	}
	return req, nil
}

// c19ReqModel: the field section a correct HTTP/3 request writer emits for the message
// (RFC 9114 §4.2, §4.3.1, §4.4; RFC 8441 §4; net/http conventions for Host, User-Agent and Content-Length).
func c19ReqModel(in *c19ReqIn, req *http.Request) (hdr []c19F, trl []c19F) {
	isConnect := in.Method == "CONNECT"
	ext := isConnect && in.Proto != "" && in.Proto != "HTTP/1.1"
	method := in.Method
	if method == "" {
		method = "GET" // net/http: "For client requests, an empty string means GET"
	}
	hdr = append(hdr, c19F{Name: ":authority", Value: in.wantHost}, c19F{Name: ":method", Value: method})
	if !isConnect || ext {
		hdr = append(hdr, c19F{Name: ":path", Value: req.URL.RequestURI()}, c19F{Name: ":scheme", Value: req.URL.Scheme})
	}
	if ext {
		hdr = append(hdr, c19F{Name: ":protocol", Value: in.Proto})
	}
	if len(in.Trailer) > 0 {
		valid := 0
		for k := range in.Trailer {
			if !c19IsForbiddenTrailer(k) {
				valid++
			}
		}
		if valid > 0 {
			hdr = append(hdr, c19F{Name: "trailer", Value: c19Wild})
		}
	}
	didUA := false
	for k, vv := range in.Header {
		lk := strings.ToLower(k)
		switch lk {
		case "host", "content-length", "connection", "proxy-connection", "transfer-encoding", "upgrade", "keep-alive":
			continue
		case "user-agent":
			didUA = true
			if len(vv) < 1 || vv[0] == "" {
				continue
			}
			vv = vv[:1]
		}
		for _, v := range vv {
			hdr = append(hdr, c19F{Name: lk, Value: v})
		}
	}
	cl := int64(-1)
	switch in.Body {
	case "nil":
		cl = 0
	default:
		if in.CL != 0 {
			cl = in.CL
		}
	}
	if cl > 0 || (cl == 0 && (in.Method == "POST" || in.Method == "PUT" || in.Method == "PATCH")) {
		hdr = append(hdr, c19F{Name: "content-length", Value: strconv.FormatInt(cl, 10)})
	}
	if in.Gzip {
		hdr = append(hdr, c19F{Name: "accept-encoding", Value: "gzip"})
	}
	if !didUA {
		hdr = append(hdr, c19F{Name: "user-agent", Value: c19Wild})
	}
	for k, vv := range in.Trailer {
		if c19IsForbiddenTrailer(k) {
			continue
		}
		for _, v := range vv {
			trl = append(trl, c19F{Name: strings.ToLower(k), Value: v})
		}
	}
	return hdr, trl
}

// c19Wildcards replaces, in the decoded section, the values the model leaves open.
func c19Wildcards(got []c19F, want []c19F, announce map[string][]string) ([]c19F, string) {
	out := append([]c19F(nil), got...)
	for _, w := range want {
		if w.Value != c19Wild {
			continue
		}
		n := 0
		for i := range out {
			if out[i].Name == w.Name {
				n++
				if w.Name == "trailer" {
					// every valid key must be announced, nothing but keys of the trailer map may be
					seen := map[string]bool{}
					for _, p := range strings.Split(out[i].Value, ",") {
						seen[http.CanonicalHeaderKey(strings.Trim(p, " \t"))] = true
					}
					for k := range announce {
						ck := http.CanonicalHeaderKey(k)
						if !c19IsForbiddenTrailer(k) && !seen[ck] {
							return nil, fmt.Sprintf("trailer %q not announced in %q", k, out[i].Value)
						}
						delete(seen, ck)
					}
					if len(seen) > 0 {
						return nil, fmt.Sprintf("announced trailers %q are not in the trailer map", out[i].Value)
					}
				} else if out[i].Value == "" {
					return nil, fmt.Sprintf("empty %s", w.Name)
				}
				out[i].Value = c19Wild
			}
		}
		if n != 1 {
			return nil, fmt.Sprintf("%d %q fields, want 1", n, w.Name)
		}
	}
	return out, ""
}

func TestVerifC19RequestWriter(t *testing.T) {
	l := evlog.Open("C19")
	defer l.Close()
	st := &c19Stats{n: map[string]int64{}}
	nTot := l.Pick(60000, 3000000)
	const batch = 500
	const big = 1 << 30
	for bi := 0; bi*batch < nTot; bi++ {
		if !l.Mine(bi) {
			continue
		}
		id := fmt.Sprintf("C19/reqwriter/%06d", bi)
		c := l.Begin(id, map[string]any{"batch": bi, "n": batch})
		if c == nil {
			continue
		}
		rng := l.Rand(id)
		rw := newRequestWriter() // reused across requests, like a client connection does
		for k := 0; k < batch; k++ {
			in := c19GenReq(rng)
			req, err := in.build()
			if err != nil {
				st.add("reqwriter_url_unparsable")
				continue
			}
			var buf bytes.Buffer
			if err := rw.WriteRequestHeader(&buf, req, in.Gzip, 0, nil); err != nil {
				st.add("reqwriter_refused")
				c.Eval("")
				continue
			}
			st.add("reqwriter_emitted")
			sig := func(class string) string { return "C19|request_writer|" + class + "|" + in.Class }
			if len(in.Trailer) > 0 {
				if err := rw.WriteRequestTrailer(&buf, req, 0, nil); err != nil {
					c19V(c, sig("trailer_write_failed"), err.Error(), in)
					continue
				}
			}
			frames, err := c19Frames(buf.Bytes())
			if err != nil || len(frames) == 0 || frames[0].Type != 0x1 {
				c19V(c, sig("bad_framing"), fmt.Sprintf("frames %v err %v", frames, err), in)
				continue
			}
			got, err := c19QpackDecode(frames[0].Payload)
			if err != nil {
				c19V(c, sig("qpack_undecodable"), err.Error(), in)
				continue
			}
			wantHdr, wantTrl := c19ReqModel(&in, req)
			// (1) the parser must accept what the writer emitted, and decode it to the same fields
			acc, perr := c19Check(c, st, c19Req, got, big, -1, qpack.NewDecoder().Decode(frames[0].Payload), "request_writer")
			if !acc {
				st.add("reqwriter_rejected_" + in.Class)
				c19V(c, sig("emitted_section_rejected"), fmt.Sprintf("requestWriter emitted %v for the request, requestFromHeaders rejects it: %v", c19Canon(got), perr), in)
				continue
			}
			// (2) what is on the wire is the message
			if !c19PseudoFirst(got) {
				c19V(c, sig("pseudo_not_first"), fmt.Sprintf("%v", got), in)
			}
			g2, d := c19Wildcards(got, wantHdr, in.Trailer)
			if d == "" {
				d = c19SameFields(g2, wantHdr)
			}
			if d != "" {
				c19V(c, sig("fields_differ"), d, in)
			}
			// (3) trailer section
			if len(wantTrl) > 0 {
				if len(frames) < 2 || frames[1].Type != 0x1 {
					c19V(c, sig("trailer_missing"), fmt.Sprintf("%d frame(s), trailers %v expected", len(frames), wantTrl), in)
					continue
				}
			}
			if len(frames) >= 2 {
				tg, err := c19QpackDecode(frames[1].Payload)
				if err != nil {
					c19V(c, sig("qpack_undecodable"), err.Error(), in)
					continue
				}
				st.add("reqwriter_trailer_sections")
				acc, perr := c19Check(c, st, c19Trl, tg, big, -1, qpack.NewDecoder().Decode(frames[1].Payload), "request_writer_trailer")
				if !acc {
					c19V(c, sig("emitted_trailer_rejected"), fmt.Sprintf("writer emitted trailer section %v, parseTrailers rejects it: %v", c19Canon(tg), perr), in)
					continue
				}
				if d := c19SameFields(c19WithoutForbiddenTrailers(tg), wantTrl); d != "" {
					c19V(c, sig("trailer_fields_differ"), d, in)
				}
			}
		}
		st.flush(l)
		c.End()
	}
}

// ---------------------------------------------------------------------------------------
// response writer

type c19Stream struct {
	buf bytes.Buffer
}

func (s *c19Stream) Read(b []byte) (int, error)                      { return 0, io.EOF }
func (s *c19Stream) Write(b []byte) (int, error)                     { return s.buf.Write(b) }
func (s *c19Stream) Close() error                                    { return nil }
func (s *c19Stream) CancelRead(quic.StreamErrorCode)                 {}
func (s *c19Stream) CancelWrite(quic.StreamErrorCode)                {}
func (s *c19Stream) StreamID() quic.StreamID                         { return 4 }
func (s *c19Stream) Context() context.Context                        { return context.Background() }
func (s *c19Stream) SetDeadline(time.Time) error                     { return nil }
func (s *c19Stream) SetReadDeadline(time.Time) error                 { return nil }
func (s *c19Stream) SetWriteDeadline(time.Time) error                { return nil }
func (s *c19Stream) SendDatagram(b []byte) error                     { return nil }
func (s *c19Stream) ReceiveDatagram(context.Context) ([]byte, error) { return nil, io.EOF }
func (s *c19Stream) QUICStream() *quic.Stream                        { return nil }

type c19RespIn struct {
	Status   int   // 0: never call WriteHeader (implicit 200)
	Early    []int // 1xx sent before
	Header   map[string][]string
	Body     []int // sizes of Write calls
	BodyByte byte
	IsHead   bool
	Late     map[string][]string // set after the body (trailer values)
	Class    string
}

var c19RespHeaderNames = []string{"Content-Type", "Content-Length", "Date", "X-Custom", "x-lower-key", "X-MiXed", "Set-Cookie", "Content-Encoding", "Cache-Control", "Etag",
	"X-!#$%&'*+-.^_`|~", "Location", "Vary", "Alt-Svc", "X-Empty"}

func c19GenResp(rng *rand.Rand) c19RespIn {
	in := c19RespIn{Class: "valid_message", BodyByte: "a<{\x00"[rng.IntN(4)]}
	in.Status = []int{0, 200, 200, 201, 204, 304, 301, 404, 500, 503, 999, 299}[rng.IntN(12)]
	for i, n := 0, []int{0, 0, 0, 1, 2}[rng.IntN(5)]; i < n; i++ {
		in.Early = append(in.Early, []int{100, 103, 199}[rng.IntN(3)])
	}
	in.Header = map[string][]string{}
	for i, n := 0, rng.IntN(8); i < n; i++ {
		k := c19RespHeaderNames[rng.IntN(len(c19RespHeaderNames))]
		vv := c19Values(rng)
		switch k {
		case "Content-Length":
			vv = []string{[]string{"0", "5", "1000000", "abc", "-1", "+5"}[rng.IntN(6)]}
			if len(in.Early) > 0 {
				vv = []string{"5"} // a 1xx section is sent before the writer looks at Content-Length
			}
		case "Date":
			if rng.IntN(2) == 0 {
				vv = nil
			} else {
				vv = []string{"Mon, 02 Jan 2006 15:04:05 GMT"}
			}
		case "Content-Encoding":
			vv = []string{[]string{"gzip", "", "br"}[rng.IntN(3)]}
		}
		in.Header[k] = vv
	}
	if rng.IntN(3) == 0 {
		// announced trailers
		var names []string
		for i, n := 0, 1+rng.IntN(3); i < n; i++ {
			if rng.IntN(5) == 0 {
				names = append(names, c19ForbiddenTrailer[rng.IntN(3)]) // Content-Length, Transfer-Encoding, Trailer
			} else {
				names = append(names, c19ValidTrailer[rng.IntN(len(c19ValidTrailer))])
			}
		}
		sep := []string{", ", ",", " , "}[rng.IntN(3)]
		if rng.IntN(2) == 0 && len(names) > 1 {
			in.Header["Trailer"] = []string{names[0], strings.Join(names[1:], sep)}
		} else {
			in.Header["Trailer"] = []string{strings.Join(names, sep)}
		}
		in.Late = map[string][]string{}
		for _, n := range names {
			if c19IsForbiddenTrailer(n) {
				continue
			}
			ck := http.CanonicalHeaderKey(n)
			switch rng.IntN(4) {
			case 0: // value already present when the header is written
				in.Header[ck] = []string{c19WriterValue(rng)}
			case 1: // never set
			default:
				in.Late[ck] = c19Values(rng)
			}
		}
	}
	if rng.IntN(4) == 0 {
		if in.Late == nil {
			in.Late = map[string][]string{}
		}
		// the "Trailer:" prefix convention of net/http; names distinct from the announced ones
		in.Late[http.TrailerPrefix+[]string{"X-Late-1", "x-late-2", "Grpc-Status-Details-Bin"}[rng.IntN(3)]] = c19Values(rng)
	}
	for i, n := 0, []int{0, 0, 1, 1, 2, 3}[rng.IntN(6)]; i < n; i++ {
		in.Body = append(in.Body, []int{0, 1, 10, 600, 4095, 4096, 5000}[rng.IntN(7)])
	}
	in.IsHead = rng.IntN(8) == 0
	if rng.IntN(50) == 0 {
		// a handler written for net/http that sets a hop-by-hop field (net/http's HTTP/2 server drops these)
		in.Class = "connection_specific_field_set_by_handler"
		kv := [][2]string{{"Connection", "close"}, {"Connection", "keep-alive"}, {"Keep-Alive", "timeout=5"}, {"Transfer-Encoding", "chunked"}, {"Upgrade", "h2c"}, {"Proxy-Connection", "keep-alive"}}[rng.IntN(6)]
		in.Header[kv[0]] = []string{kv[1]}
	}
	return in
}

// c19RespModel: the field sections a correct HTTP/3 response writer emits.  Fields the writer adds
// on its own (date, sniffed content-type) are left open.
func c19RespModel(in *c19RespIn) (hdr []c19F, open map[string]bool, trl []c19F) {
	declared := map[string]bool{}
	for _, v := range in.Header["Trailer"] {
		for _, n := range strings.Split(v, ",") {
			ck := http.CanonicalHeaderKey(strings.Trim(n, " \t"))
			if !c19IsForbiddenTrailer(ck) {
				declared[ck] = true
			}
		}
	}
	open = map[string]bool{}
	if _, ok := in.Header["Date"]; !ok {
		open["date"] = true
	}
	if _, ok := in.Header["Content-Type"]; !ok {
		open["content-type"] = true
	}
	for k, vv := range in.Header {
		if declared[k] || strings.HasPrefix(k, http.TrailerPrefix) {
			continue
		}
		conn := false
		for _, n := range c19ConnSpecific {
			if strings.ToLower(k) == n {
				conn = true // RFC 9114 §4.2: must not be generated; a handler may set them, the writer has to drop them
			}
		}
		if conn {
			continue
		}
		for _, v := range vv {
			hdr = append(hdr, c19F{Name: strings.ToLower(k), Value: v})
		}
	}
	final := map[string][]string{}
	for k, vv := range in.Header {
		final[k] = vv
	}
	for k, vv := range in.Late {
		final[k] = vv
	}
	for k, vv := range final {
		switch {
		case declared[k]:
			for _, v := range vv {
				trl = append(trl, c19F{Name: strings.ToLower(k), Value: v})
			}
		case strings.HasPrefix(k, http.TrailerPrefix):
			for _, v := range vv {
				trl = append(trl, c19F{Name: strings.ToLower(strings.TrimPrefix(k, http.TrailerPrefix)), Value: v})
			}
		}
	}
	return hdr, open, trl
}

func c19DropOpen(fields []c19F, open map[string]bool) []c19F {
	var out []c19F
	for _, f := range fields {
		if !open[f.Name] {
			out = append(out, f)
		}
	}
	return out
}

func TestVerifC19ResponseWriter(t *testing.T) {
	l := evlog.Open("C19")
	defer l.Close()
	st := &c19Stats{n: map[string]int64{}}
	nTot := l.Pick(50000, 2500000)
	const batch = 500
	const big = 1 << 30
	logger := slog.New(slog.NewTextHandler(io.Discard, &slog.HandlerOptions{Level: slog.LevelError + 4}))
	for bi := 0; bi*batch < nTot; bi++ {
		if !l.Mine(bi) {
			continue
		}
		id := fmt.Sprintf("C19/respwriter/%06d", bi)
		c := l.Begin(id, map[string]any{"batch": bi, "n": batch})
		if c == nil {
			continue
		}
		rng := l.Rand(id)
		for k := 0; k < batch; k++ {
			in := c19GenResp(rng)
			str := &c19Stream{}
			rw := newResponseWriter(newStream(str, nil, nil, func(io.Reader, *headersFrame) error { return nil }, nil), nil, in.IsHead, logger)
			h := rw.Header()
			for k, vv := range in.Header {
				if vv == nil {
					h[k] = nil
				} else {
					h[k] = append([]string(nil), vv...)
				}
			}
			for _, s := range in.Early {
				rw.WriteHeader(s)
			}
			if in.Status != 0 {
				rw.WriteHeader(in.Status)
			}
			for _, n := range in.Body {
				rw.Write(bytes.Repeat([]byte{in.BodyByte}, n))
			}
			for k, vv := range in.Late {
				h[k] = vv
			}
			rw.Flush()
			rw.flushTrailers()
			st.add("respwriter_responses")

			sig := func(class string) string { return "C19|response_writer|" + class + "|" + in.Class }
			frames, err := c19Frames(str.buf.Bytes())
			if err != nil {
				c19V(c, sig("bad_framing"), err.Error(), in)
				continue
			}
			wantHdr, open, wantTrl := c19RespModel(&in)
			status := in.Status
			if status == 0 {
				status = 200
			}
			// Content-Length given by the handler: a malformed one must not reach the wire
			if cl, ok := in.Header["Content-Length"]; ok && len(cl) == 1 && !c19IsDigits(cl[0]) {
				wantHdr = c19DropNamed(wantHdr, "content-length")
			}
			fi := 0
			ok := true
			// header sections: the 1xx ones, then the final one
			for hi := 0; hi <= len(in.Early) && ok; hi++ {
				if fi >= len(frames) || frames[fi].Type != 0x1 {
					c19V(c, sig("header_frame_missing"), fmt.Sprintf("section %d of %d: frames %d", hi, len(in.Early)+1, len(frames)), in)
					ok = false
					break
				}
				blk := frames[fi].Payload
				fi++
				got, err := c19QpackDecode(blk)
				if err != nil {
					c19V(c, sig("qpack_undecodable"), err.Error(), in)
					ok = false
					break
				}
				st.add("respwriter_header_sections")
				acc, perr := c19Check(c, st, c19Resp, got, big, -1, qpack.NewDecoder().Decode(blk), "response_writer")
				if !acc {
					st.add("respwriter_rejected_" + in.Class)
					c19V(c, sig("emitted_section_rejected"), fmt.Sprintf("responseWriter emitted %v, updateResponseFromHeaders rejects it: %v", c19Canon(got), perr), in)
					ok = false
					break
				}
				want := append([]c19F(nil), wantHdr...)
				wantStatus := status
				op := open
				if hi < len(in.Early) {
					wantStatus = in.Early[hi]
					// informational sections carry whatever the map holds at that time (no checks on Content-Length yet)
					want = nil
					for _, f := range wantHdrRaw(&in) {
						want = append(want, f)
					}
					op = map[string]bool{}
				}
				want = append(want, c19F{Name: ":status", Value: strconv.Itoa(wantStatus)})
				if !c19PseudoFirst(got) {
					c19V(c, sig("pseudo_not_first"), fmt.Sprintf("%v", got), in)
				}
				if d := c19SameFields(c19DropOpen(got, op), c19DropOpen(want, op)); d != "" {
					c19V(c, sig("fields_differ"), d, in)
				}
			}
			if !ok {
				continue
			}
			for fi < len(frames) && frames[fi].Type == 0x0 {
				fi++
				st.add("respwriter_data_frames")
			}
			if len(wantTrl) > 0 {
				if fi >= len(frames) || frames[fi].Type != 0x1 {
					c19V(c, sig("trailer_missing"), fmt.Sprintf("trailers %v expected", wantTrl), in)
					continue
				}
			}
			if fi < len(frames) {
				if frames[fi].Type != 0x1 {
					c19V(c, sig("bad_framing"), fmt.Sprintf("frame type %#x after the body", frames[fi].Type), in)
					continue
				}
				blk := frames[fi].Payload
				tg, err := c19QpackDecode(blk)
				if err != nil {
					c19V(c, sig("qpack_undecodable"), err.Error(), in)
					continue
				}
				st.add("respwriter_trailer_sections")
				acc, perr := c19Check(c, st, c19Trl, tg, big, -1, qpack.NewDecoder().Decode(blk), "response_writer_trailer")
				if !acc {
					c19V(c, sig("emitted_trailer_rejected"), fmt.Sprintf("writer emitted trailer section %v, parseTrailers rejects it: %v", c19Canon(tg), perr), in)
					continue
				}
				if d := c19SameFields(tg, wantTrl); d != "" {
					c19V(c, sig("trailer_fields_differ"), d, in)
				}
				if fi+1 != len(frames) {
					c19V(c, sig("bad_framing"), "frames after the trailer section", in)
				}
			}
		}
		st.flush(l)
		c.End()
	}
}

func c19DropNamed(fields []c19F, name string) []c19F {
	var out []c19F
	for _, f := range fields {
		if f.Name != name {
			out = append(out, f)
		}
	}
	return out
}

// wantHdrRaw: the handler's header map as field list, minus announced trailers and "Trailer:" keys.
func wantHdrRaw(in *c19RespIn) []c19F {
	h, _, _ := c19RespModel(in)
	return h
}
